"""Real-thread confirmation for C11: one RL calibration with real threading/queue (no simulator seams), a model
that raises at invocation k, then a follow-up calibrate().  The parent judges by stdout and by whether this
process manages to exit.  Usage: python realrun.py scenario.json k"""
import contextlib
import io
import json
import os
import sys
import threading

HOME = os.path.dirname(os.path.dirname(os.path.abspath(__file__)))
sys.path.insert(0, HOME)
sys.path.insert(0, os.environ.get("VERIF_REPO", "/repo"))


class Boom(Exception):
    pass


def main():
    from sim import calsim
    scn = json.load(open(sys.argv[1]))
    k = int(sys.argv[2])
    sim = calsim.CalSim(scn, env={"folder": False, "n_jobs": 1})
    out = io.StringIO()
    with contextlib.redirect_stdout(out):
        cal = sim.build()
        real_model = cal.model
        calls = {"n": 0}

        class M:
            __name__ = real_model.__name__

            def __call__(self, theta, N, seed):  # noqa: N803
                i = calls["n"]
                calls["n"] += 1
                if i == k:
                    raise Boom(f"model call {i}")
                return real_model(theta, N, seed)
        cal.model = M()
        status = []
        try:
            cal.calibrate(scn["ops"][0][1])
            status.append("NO-FAULT")
        except Boom:
            status.append("PROPAGATED")
        except Exception as e:  # noqa: BLE001
            status.append(f"OTHER:{type(e).__name__}")
        status.append(f"THREADS={threading.active_count()}")
        try:
            cal.calibrate(1)
            status.append("REUSABLE")
        except Exception as e:  # noqa: BLE001
            status.append(f"NOT-REUSABLE:{type(e).__name__}:{e}")
    print("REALRUN " + " ".join(status), flush=True)


if __name__ == "__main__":
    main()
    # a non-daemon thread left behind keeps the interpreter from exiting: the parent sees a timeout
