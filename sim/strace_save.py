"""Driver for the real-kill confirmation of C06: restore a calibrator from a staging folder and save it into the
target folder.  Run under `strace -e inject=...:signal=SIGKILL:when=k` by sim/props/c06.py.
Usage: python strace_save.py <staging folder> <target folder> <model kind> <D> <extreme>"""
import contextlib
import io
import os
import sys

HOME = os.path.dirname(os.path.dirname(os.path.abspath(__file__)))
sys.path.insert(0, HOME)
sys.path.insert(0, os.environ.get("VERIF_REPO", "/repo"))


def main():
    from black_it.calibrator import Calibrator
    from sim.models import HarnessModel
    staging, target, kind, D, extreme = sys.argv[1], sys.argv[2], sys.argv[3], int(sys.argv[4]), float(sys.argv[5])  # noqa: N806
    with contextlib.redirect_stdout(io.StringIO()):
        cal = Calibrator.restore_from_checkpoint(staging, model=HarnessModel(kind, D, extreme))
        cal.create_checkpoint(target)


if __name__ == "__main__":
    main()
