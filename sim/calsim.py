"""calsim: whole-calibrator simulation (DESIGN.md 3.4).

A scenario's configuration is turned into a *real* Calibrator; the simulator owns the worker pool,
the RL thread and queues, the clock, the ambient random state and the folder, records every seam
event, injects faults, and runs monitors for the history/grid/read-only invariants.
"""
from __future__ import annotations

import contextlib
import io
import os
import random
import shutil
import tempfile
import warnings
from collections import Counter
from pathlib import Path

import numpy as np

from sim import models, peers
from sim.core import EventLog, arr_digest, derive_seed
from sim.seams import InjectedInterrupt, InjectedFault, Seams, SimClock, SimCrash, SimParallel, import_all_black_it, wrap_methods
from sim.threads import Baton, Deadlock, QueueModuleShim, StepLimit, ThreadingShim

SAMPLER_KINDS = ["uniform", "halton", "rseq", "bestbatch", "gp", "rf", "xgb", "pso", "cors"]
HISTORY_FREE = ("uniform", "halton", "rseq", "pso")
LOSS_KINDS = ["minkowski", "msm", "fourier", "gsl", "likelihood"]


# ------------------------------------------------------------------------------------------
# construction of real black-it objects from specs

def make_sampler(spec, ctor_seed):
    from black_it.samplers.best_batch import BestBatchSampler
    from black_it.samplers.cors import CORSSampler
    from black_it.samplers.gaussian_process import GaussianProcessSampler
    from black_it.samplers.halton import HaltonSampler
    from black_it.samplers.particle_swarm import ParticleSwarmSampler
    from black_it.samplers.r_sequence import RSequenceSampler
    from black_it.samplers.random_forest import RandomForestSampler
    from black_it.samplers.random_uniform import RandomUniformSampler
    from black_it.samplers.xgboost import XGBoostSampler
    k = spec["cls"]
    bs = spec["batch_size"]
    o = dict(spec.get("opts", {}))
    if k == "uniform":
        return RandomUniformSampler(bs, random_state=ctor_seed, **o)
    if k == "halton":
        return HaltonSampler(bs, random_state=ctor_seed, **o)
    if k == "rseq":
        return RSequenceSampler(bs, random_state=ctor_seed, **o)
    if k == "bestbatch":
        return BestBatchSampler(bs, random_state=ctor_seed, **o)
    if k == "gp":
        return GaussianProcessSampler(bs, random_state=ctor_seed, **o)
    if k == "rf":
        return RandomForestSampler(bs, random_state=ctor_seed, **o)
    if k == "xgb":
        return XGBoostSampler(bs, random_state=ctor_seed, **o)
    if k == "pso":
        return ParticleSwarmSampler(bs, random_state=ctor_seed, **o)
    if k == "cors":
        return CORSSampler(bs, random_state=ctor_seed, **o)
    raise ValueError(k)


def make_loss(spec):
    from black_it.loss_functions.fourier import FourierLoss, gaussian_low_pass_filter, ideal_low_pass_filter
    from black_it.loss_functions.gsl_div import GslDivLoss
    from black_it.loss_functions.likelihood import LikelihoodLoss
    from black_it.loss_functions.minkowski import MinkowskiLoss
    from black_it.loss_functions.msm import MethodOfMomentsLoss
    k = spec["cls"]
    o = dict(spec.get("opts", {}))
    w = o.pop("weights", None)
    if w is not None:
        o["coordinate_weights"] = np.array(w, dtype=float)
    fl = o.pop("filters", None)
    if fl is not None:
        from sim.peers import FILTERS
        o["coordinate_filters"] = [None if f is None else FILTERS[f] for f in fl]
    if k == "minkowski":
        return MinkowskiLoss(**o)
    if k == "msm":
        return MethodOfMomentsLoss(**o)
    if k == "fourier":
        ff = o.pop("filter", "gaussian")
        return FourierLoss(frequency_filter=gaussian_low_pass_filter if ff == "gaussian" else ideal_low_pass_filter, **o)
    if k == "gsl":
        return GslDivLoss(**o)
    if k == "likelihood":
        return LikelihoodLoss(**o)
    if k == "readoff":
        from sim.peers import ReadOffLoss
        return ReadOffLoss(**o)
    raise ValueError(k)


def make_scheduler(spec, samplers, ctor_seed):
    """RL scheduler with a real epsilon-greedy agent or a scripted one."""
    from black_it.samplers.halton import HaltonSampler
    from black_it.schedulers.rl.agents.epsilon_greedy import MABEpsilonGreedy
    from black_it.schedulers.rl.envs.mab import MABCalibrationEnv
    from black_it.schedulers.rl.rl_scheduler import RLScheduler
    n_actions = len(samplers) + (0 if any(type(s) is HaltonSampler for s in samplers) else 1)
    a = spec.get("agent", {"kind": "eps"})
    if a.get("kind", "eps") == "eps":
        agent = MABEpsilonGreedy(n_actions, alpha=a.get("alpha", -1), eps=a.get("eps", 0.1),
                                 initial_values=a.get("init", 0.0), random_state=ctor_seed)
    else:
        agent = peers.ScriptedAgent([x % n_actions for x in a["script"]], random_state=ctor_seed)
    env = MABCalibrationEnv(nb_samplers=n_actions)
    return RLScheduler(samplers, agent=agent, env=env, random_state=ctor_seed)


# ------------------------------------------------------------------------------------------
# scenario generation (swarm: everything re-drawn per run)

def _r(x, nd=6):
    return float(f"{x:.{nd}g}")


def gen_space(rng: random.Random, dims: int, small=False):
    lows, highs, precs = [], [], []
    for _ in range(dims):
        if rng.random() < 0.3:
            # "nice" decimal spaces: the last grid element may land a few ulps off the declared bound
            prec = rng.choice([0.1, 0.05, 0.2, 0.01, 0.3, 0.15, 0.7, 0.001, 2.5])
            lo = rng.choice([0.0, 0.1, -0.3, 1.0, 0.05, -1.0, 0.499, 100.0])
            k = rng.randint(2, 8) if small else rng.randint(2, 40)
            hi = float(repr(round(lo + k * prec + rng.choice([0.0, 0.0, 0.0, 0.5 * prec, 0.9 * prec]), 10)))
            lows.append(lo)
            highs.append(hi)
            precs.append(prec)
            continue
        scale = rng.choice([1e-3, 0.1, 1.0, 1.0, 1.0, 10.0, 1e3])
        lo = _r(rng.choice([-2.5, -1.0, -0.3, 0.0, 0.0, 0.01, 0.5, 3.0]) * scale)
        width = scale * rng.choice([0.5, 1.0, 1.0, 2.0, 3.0])
        hi = _r(lo + width)
        k = rng.randint(3, 9) if small else rng.randint(5, 60)
        frac = rng.choice([0.0, 0.0, 0.3, 0.5, 0.77])
        prec = _r((hi - lo) / (k + frac), 5)
        lows.append(lo)
        highs.append(hi)
        precs.append(prec)
    return {"bounds": [lows, highs], "precision": precs}


def gen_sampler_spec(rng: random.Random, kind: str, bs: int, cheap=True):
    o = {}
    if kind in ("uniform", "halton", "rseq"):
        if rng.random() < 0.4:
            o["max_deduplication_passes"] = rng.randint(0, 6)
    elif kind == "bestbatch":
        o = {"a": rng.choice([3.0, 1.0, 0.5]), "b": rng.choice([1.0, 2.0]), "perturbation_range": rng.randint(2, 6)}
        if rng.random() < 0.3:
            o = {}
    elif kind == "gp":
        o = {"candidate_pool_size": rng.randint(8, 30), "optimize_restarts": rng.randint(0, 1),
             "acquisition": rng.choice(["mean", "expected_improvement"]), "jitter": rng.choice([0.1, 0.01])}
        if rng.random() < 0.4:
            del o["acquisition"], o["jitter"]          # constructor defaults are exercised too
    elif kind == "rf":
        o = {"candidate_pool_size": rng.randint(8, 40), "n_estimators": rng.randint(2, 6),
             "criterion": rng.choice(["gini", "entropy"]), "n_classes": rng.randint(3, 6)}
    elif kind == "xgb":
        o = {"candidate_pool_size": rng.randint(8, 40), "n_estimators": rng.randint(2, 5), "max_depth": rng.randint(2, 4),
             "colsample_bytree": rng.choice([0.3, 0.7, 1.0]), "learning_rate": rng.choice([0.1, 0.3]),
             "alpha": rng.choice([0.0, 1.0])}
    elif kind == "pso":
        o = {"inertia": rng.choice([0.9, 0.5]), "c1": rng.choice([0.1, 0.5]), "c2": rng.choice([0.1, 0.7]),
             "global_minimum_across_samplers": rng.random() < 0.5}
        if rng.random() < 0.3:
            o = {"global_minimum_across_samplers": o["global_minimum_across_samplers"]}
    elif kind == "cors":
        o = {"max_samples": rng.choice([200, 1000]), "rho0": rng.choice([0.5, 0.2]), "p": rng.choice([1.0, 2.0])}
    if kind in ("bestbatch", "gp", "rf", "xgb") and rng.random() < 0.15:
        o["max_deduplication_passes"] = rng.choice([0, 0, 1, 2, 6])     # (swarm and CORS fix their budget at 0); 0 is the boundary
    return {"cls": kind, "batch_size": bs, "opts": o}


def gen_lineup(rng: random.Random, n=None, kinds=None, max_bs=4, rl=False, feature=None):
    kinds = list(kinds or SAMPLER_KINDS)
    n = n or rng.randint(1, 6)
    if feature is not None and feature in kinds:
        # coverage: every sampler class is guaranteed to take part in one scenario out of len(kinds)
        n = max(n, 2)
    lineup = []
    slot = rng.randrange(1, n) if (feature is not None and n > 1) else None
    for i in range(n):
        if i == slot and feature in kinds:
            lineup.append(gen_sampler_spec(rng, feature, rng.randint(1, max_bs)))
            continue
        if i == 0 and not rl:
            k = rng.choice([x for x in HISTORY_FREE if x in kinds] or ["halton"])
        else:
            k = rng.choice(kinds)
            if k == "cors" and rng.random() < 0.6:      # CORS is expensive: keep it rarer
                k = rng.choice(kinds)
        bs = rng.randint(1, max_bs)
        lineup.append(gen_sampler_spec(rng, k, bs))
    if rl:
        # the bootstrap sampler must be able to feed every history-driven sampler that may follow; with several Halton
        # samplers in the line-up the scheduler may bootstrap with any of them, so all of them must be large enough
        need = max([s["batch_size"] for s in lineup if s["cls"] == "bestbatch"] + [1])
        if any(s["cls"] == "gp" for s in lineup):
            need = max(need, 2)          # a Gaussian process cannot be fitted to a single point (zero noise variance)
        if not any(s["cls"] == "halton" for s in lineup) and rng.random() < 0.5 and need == 1:
            pass      # let the scheduler add its own Halton(batch_size=1)
        else:
            pos = rng.randrange(len(lineup) + 1)
            lineup.insert(pos, gen_sampler_spec(rng, "halton", max(need, rng.randint(1, max_bs))))
        for sp in lineup:
            if sp["cls"] == "halton":
                sp["batch_size"] = max(sp["batch_size"], need)
    else:
        need = max([s["batch_size"] for s in lineup[1:] if s["cls"] == "bestbatch"] + [1])
        if any(s["cls"] == "gp" for s in lineup[1:]):
            need = max(need, 2)
        lineup[0]["batch_size"] = max(lineup[0]["batch_size"], need)
    return lineup


def gen_loss(rng: random.Random, D, kinds=None):  # noqa: N803
    k = rng.choice(list(kinds or LOSS_KINDS))
    o = {}
    if k == "minkowski":
        o = {"p": rng.choice([1, 2, 3])}
    elif k == "msm":
        o = {"covariance_mat": rng.choice(["identity", "inverse_variance"]), "standardise_moments": rng.random() < 0.3}
    elif k == "fourier":
        o = {"filter": rng.choice(["gaussian", "ideal"]), "f": rng.choice([0.8, 0.5, 0.2])}
    elif k == "gsl":
        o = {"nb_values": rng.choice([None, 4, 7]), "nb_word_lengths": rng.choice([None, 2, 3])}
    elif k == "likelihood":
        o = {"h": rng.choice(["silverman", "scott", 0.5])}
    if k != "likelihood" and rng.random() < 0.3:
        o["weights"] = [_r(rng.random() + 0.1, 3) for _ in range(D)]
    if k in ("msm", "fourier", "gsl", "likelihood") and rng.random() < 0.2:
        # a documented option: each simulated coordinate is transformed before the loss is computed (the recorded series is not)
        o["filters"] = [rng.choice([None, "demean", "tanh", "smooth"]) for _ in range(D)]
    return {"cls": k, "opts": o}


def gen_seed(rng: random.Random):
    """seeds with the boundary values over-represented (0 is falsy: `if seed:` / `seed or default` slips)"""
    u = rng.random()
    if u < 0.15:
        return 0
    if u < 0.2:
        return 1
    return rng.randrange(2 ** 31)


def gen_config(rng: random.Random, *, rl_prob=0.25, kinds=None, loss_kinds=None, max_dims=4, max_bs=4,
               extreme_prob=0.0, model_kinds=("gauss", "ar1", "mix"), feature=None):
    dims = rng.randint(1, max_dims)
    rl = rng.random() < rl_prob
    D = rng.randint(1, 3)  # noqa: N806
    N = rng.choice([12, 20, 30])  # noqa: N806
    cfg = {
        "space": gen_space(rng, dims),
        "lineup": gen_lineup(rng, kinds=kinds, max_bs=max_bs, rl=rl, feature=feature),
        "scheduler": {"kind": "rl", "agent": {"kind": "eps", "eps": rng.choice([0.0, 0.1, 0.5, 1.0]),
                                               "alpha": rng.choice([-1, 0.1, 0.5]), "init": rng.choice([0.0, 1.0])}}
        if rl else {"kind": "rr"},
        "loss": gen_loss(rng, D, loss_kinds),
        "model": {"kind": rng.choice(list(model_kinds)), "D": D,
                  "extreme": (rng.choice([0.1, 0.3]) if rng.random() < extreme_prob else 0.0)},
        "N": N, "sim_length": None, "real_seed": rng.randrange(1000),
        "ensemble": rng.randint(1, 3), "cal_seed": gen_seed(rng), "convergence_precision": None,
    }
    sl = rng.choice([None, None, N, N + 5])
    # a simulation length different from the data length only makes sense for losses that compare summaries
    cfg["sim_length"] = sl if cfg["loss"]["cls"] in ("msm", "gsl", "likelihood") or sl in (None, N) else None
    return cfg


def make_scripted_convergence(cfg, rng: random.Random, n_values=None):
    """Losses dictated through the model (seam S7) so that the convergence stop is actually reached."""
    cfg["model"] = {"kind": "scripted", "D": cfg["model"]["D"], "extreme": 0.0}
    cfg["loss"] = {"cls": "minkowski", "opts": {"p": 1}}
    cfg["sim_length"] = None
    cfg["convergence_precision"] = rng.choice([0, 1, 3])
    cfg["script"] = [rng.choice([3.0, 1.0, 0.2, 0.04, 1e-5, 0.0]) for _ in range(n_values or rng.randint(3, 30))]
    cfg["script_per"] = 1
    return cfg


def gen_sched(rng: random.Random, rl: bool):
    """Thread schedule of a calsim run: seeded random / PCT / canonical; line-level pre-emption inside
    black_it/schedulers for a third of the RL scenarios."""
    mode = rng.choice(["random", "random", "pct", "mainfirst", "othersfirst"])
    sched = {"mode": mode, "seed": rng.randrange(2 ** 31), "p_line": 0.0}
    trace = bool(rl and rng.random() < 0.33)
    if trace:
        sched["p_line"] = rng.choice([0.05, 0.2, 0.5])
        if mode == "pct":
            sched["pct_horizon"] = rng.choice([100, 400, 1500])
            sched["pct_depth"] = rng.randint(1, 4)
    return sched, trace


BASE_ENV = {"n_jobs": 1, "verbose": False, "folder": False, "ctor_seed": 0, "ambient": 0, "clock_jumps": {},
            "sched": {"mode": "random", "seed": 0, "p_line": 0.0}, "trace_lines": False}


# ------------------------------------------------------------------------------------------
# the simulated execution

class _Sink(io.TextIOBase):
    def __init__(self):
        self.n = 0
        self.lines = 0
        self.tail = ""

    def write(self, s):
        self.n += len(s)
        self.lines += s.count("\n")
        self.tail = (self.tail + s)[-4000:]
        return len(s)


class BatchRec:
    __slots__ = ("index", "pos", "cls", "bs", "returned", "calls", "losses", "hist_len", "sampler_obj_id", "ok", "tag")

    def __init__(self):
        self.calls = []      # (task index, theta, N, seed, result)
        self.losses = []     # (input digest, output)
        self.returned = None
        self.ok = False


class CalSim:
    """One simulated life of a calibrator under a given environment and fault plan."""

    def __init__(self, scn: dict, env: dict | None = None, ops=None, faults=None, label="base"):
        self.scn = scn
        self.cfg = scn["config"]
        self.env = {**BASE_ENV, **scn.get("env", {}), **(env or {})}
        self.ops = list(ops if ops is not None else scn.get("ops", []))
        self.faults = list(faults if faults is not None else scn.get("faults", []))
        self.label = label
        self.rng = random.Random(derive_seed("calsim", scn.get("sim_seed", 0), self.env.get("salt", 0)))
        self.stats = Counter()
        self.log = EventLog()
        self.mon: list[tuple[str, str, str, str]] = []     # (property, clause, site, detail)
        self.batches: list[BatchRec] = []
        self.cur: BatchRec | None = None
        self.next_sampler_log = []
        self.n_model = 0
        self.n_loss = 0
        self.n_sample = 0
        self.n_update = 0
        self.op_results = []
        self.cal = None
        self.folder = None
        self.seams = Seams()
        self.baton = None
        self.sink = _Sink()
        self.scratch = None
        self.prefix_digest = None
        self.model = None
        self._depth = 0
        self.fault_idx = {(f["seam"], f["at"]): f for f in self.faults if f.get("kind") in ("raise", "crash")}
        self.fired = []
        self.policy_log = []
        self.learn_log = []
        self.timeline = []          # ("policy", value) / ("next", position) in the order the calls returned

    # ---- seam callbacks -------------------------------------------------------------------
    _prelude = False

    def on_dispatch(self, k, func, args, kwargs):
        if self._prelude:
            return -1
        idx = self.n_model
        self.n_model += 1
        theta = np.array(args[0], copy=True) if args else None
        if self.cur is not None:
            self.cur.calls.append([idx, theta, args[1] if len(args) > 1 else None, args[2] if len(args) > 2 else None, None])
        self.log.add("model-dispatch", idx, arr_digest(theta), *[int(a) if isinstance(a, (int, np.integer)) else repr(a) for a in args[1:3]])
        self._check_prefix("model-dispatch")
        grid = self.cal.param_grid.param_grid if self.cal is not None else None
        if grid is not None and theta is not None:
            for j, v in enumerate(np.atleast_1d(theta)):
                if not np.any(grid[j] == v):
                    self.mon.append(("C03", "model-offgrid", self.cur.cls if self.cur else "?",
                                     f"model received theta[{j}]={v!r} which is not on the grid of parameter {j}"))
        return idx

    def run_task(self, idx, func, args, kwargs):
        if self._prelude:
            return func(*args, **kwargs)
        f = self.fault_idx.get(("model", idx))
        if f is not None:
            self.fired.append(f)
            self.stats[f"{f['kind']}@model"] += 1
            if f["kind"] == "crash":
                raise SimCrash(f"crash at model call {idx}")
            raise (InjectedInterrupt if self.env.get("fault_base") == "interrupt" else InjectedFault)(f"model call {idx}")
        models.SCRIPT["i"] = idx      # a scripted model answers by task index, whatever the completion order
        return func(*args, **kwargs)

    def on_complete(self, idx, k, res):
        if self._prelude:
            return res
        if self.cur is not None:
            for c in self.cur.calls:
                if c[0] == idx:
                    c[4] = np.array(res, copy=True)
        self.log.add("model-complete", idx, arr_digest(res))
        return res

    def _check_prefix(self, where):
        """Append-only monitor: rows recorded before this batch must not have changed."""
        if self.prefix_digest is None or self.cal is None:
            return
        n, dg = self.prefix_digest
        cur = self._prefix(self.cal, n)
        if cur != dg:
            names = [nm for nm, a, b in zip(("params", "losses", "series", "batch_num", "method"), cur, dg) if a != b]
            site = self.cur.cls if self.cur else "?"
            self.mon.append(("C02", "row-changed", f"{site}:{'+'.join(names)}",
                             f"rows recorded earlier changed ({names}) - noticed at {where} during batch of {site}"))
            self.prefix_digest = (n, cur)

    @staticmethod
    def _prefix(cal, n):
        return tuple(arr_digest(a[:n]) for a in (cal.params_samp, cal.losses_samp, cal.series_samp,
                                                  cal.batch_num_samp, cal.method_samp))

    # ---- wrappers -------------------------------------------------------------------------
    def _wrap_sample(self, orig, cls):
        sim = self

        def sample(self_s, search_space, existing_points, existing_losses):
            if sim._depth > 0 or sim.cal is None:
                return orig(self_s, search_space, existing_points, existing_losses)
            sim._depth += 1
            try:
                idx = sim.n_sample
                sim.n_sample += 1
                b = BatchRec()
                b.cls = type(self_s).__name__
                b.bs = self_s.batch_size
                sch = sim.cal.scheduler.samplers
                b.pos = next((i for i, s in enumerate(sch) if s is self_s), None)
                b.tag = getattr(self_s, "_verif_tag", None)
                b.hist_len = len(existing_points)
                sim.cur = b
                sim.batches.append(b)
                sim._check_prefix("sample")
                f = sim.fault_idx.get(("sampler", idx))
                if f is not None:
                    sim.fired.append(f)
                    sim.stats["raise@sampler"] += 1
                    raise (InjectedInterrupt if self.env.get("fault_base") == "interrupt" else InjectedFault)(f"sample call {idx}")
                d0 = (arr_digest(existing_points), arr_digest(existing_losses))
                out = orig(self_s, search_space, existing_points, existing_losses)
                d1 = (arr_digest(existing_points), arr_digest(existing_losses))
                if d0 != d1:
                    which = "points" if d0[0] != d1[0] else "losses"
                    sim.mon.append(("C16", "history-modified", f"{b.cls}:{which}",
                                    f"{b.cls}.sample() modified the {which} array it was lent"))
                b.returned = np.array(out, copy=True)
                sim.log.add("sample", idx, b.cls, b.pos, arr_digest(out))
                sim._check_returned(b, search_space)
                return out
            finally:
                sim._depth -= 1
        return sample

    def _check_returned(self, b, space):
        out = b.returned
        if out.ndim != 2 or out.shape != (b.bs, space.dims):
            self.mon.append(("C03", "shape", b.cls, f"{b.cls} returned shape {out.shape}, expected {(b.bs, space.dims)}"))
            return
        lo_hi = np.asarray(self.cfg["space"]["bounds"], dtype=float) if len(self.cfg["space"]["precision"]) == space.dims else None
        for j in range(space.dims):
            if lo_hi is not None:
                oob = (out[:, j] < lo_hi[0][j] - 1e-7) | (out[:, j] > lo_hi[1][j] + 1e-7)
                if oob.any():
                    self.mon.append(("C03", "out-of-bounds", b.cls,
                                     f"{b.cls} proposed {out[oob, j][0]!r} for parameter {j}, outside the declared bounds "
                                     f"[{lo_hi[0][j]!r}, {lo_hi[1][j]!r}] (+-1e-7)"))
                    return
            if lo_hi is not None:
                prec_j = float(self.cfg["space"]["precision"][j])
                kk = np.rint((out[:, j] - lo_hi[0][j]) / prec_j)
                ref = lo_hi[0][j] + kk * prec_j
                tol = 1e-9 * max(abs(lo_hi[0][j]), abs(prec_j), 1e-300) + 1e-12 * np.abs(out[:, j])
                offd = (np.abs(out[:, j] - ref) > tol) | (kk < 0)
                if offd.any():
                    self.mon.append(("C03", "off-declared-grid", b.cls,
                                     f"{b.cls} proposed {out[offd, j][0]!r} for parameter {j}: not lower + k*precision (lower {lo_hi[0][j]!r}, "
                                     f"precision {prec_j!r})"))
                    return
            bad = ~np.isin(out[:, j], space.param_grid[j])
            if bad.any():
                self.stats["probe:offgrid"] += 1
                self.mon.append(("C03", "offgrid", b.cls,
                                 f"{b.cls} proposed {out[bad, j][0]!r} for parameter {j}, not an element of its grid "
                                 f"(bounds {space.parameters_bounds[:, j].tolist()}, precision {space.parameters_precision[j]})"))
                return

    def _wrap_loss(self, orig, cls):
        sim = self

        def compute_loss(self_l, sim_data_ensemble, real_data):
            if sim.cal is None or self_l is not sim.cal.loss_function:
                return orig(self_l, sim_data_ensemble, real_data)
            idx = sim.n_loss
            sim.n_loss += 1
            f = sim.fault_idx.get(("loss", idx))
            if f is not None:
                sim.fired.append(f)
                sim.stats["raise@loss"] += 1
                raise (InjectedInterrupt if self.env.get("fault_base") == "interrupt" else InjectedFault)(f"loss call {idx}")
            din = arr_digest(sim_data_ensemble)
            dreal = arr_digest(real_data)
            out = orig(self_l, sim_data_ensemble, real_data)
            if arr_digest(sim_data_ensemble) != din or arr_digest(real_data) != dreal:
                sim.mon.append(("C02", "loss-mutates-input", type(self_l).__name__, "compute_loss modified its input arrays"))
            if sim.cur is not None:
                sim.cur.losses.append((din, out))
            sim.log.add("loss", idx, din, repr(out))
            return out
        return compute_loss

    def _wrap_update(self, orig, cls):
        sim = self

        def update(self_s, *a, **kw):
            if sim.cal is None or self_s is not sim.cal.scheduler:
                return orig(self_s, *a, **kw)
            idx = sim.n_update
            sim.n_update += 1
            f = sim.fault_idx.get(("update", idx))
            if f is not None:
                sim.fired.append(f)
                sim.stats["raise@scheduler-update"] += 1
                raise InjectedFault(f"scheduler.update call {idx}")
            return orig(self_s, *a, **kw)
        return update

    def _wrap_next(self, orig, cls):
        sim = self

        def get_next_sampler(self_s):
            out = orig(self_s)
            pos = next((i for i, s in enumerate(self_s.samplers) if s is out), None)
            sim.next_sampler_log.append((pos, type(out).__name__))
            sim.timeline.append(("next", pos))
            return out
        return get_next_sampler

    def _wrap_policy(self, orig, cls):
        sim = self

        def policy(self_a, state):
            out = orig(self_a, state)
            sim.policy_log.append(int(out))
            sim.timeline.append(("policy", int(out)))
            sim.log.add("policy", int(out))
            return out
        return policy

    def _wrap_learn(self, orig, cls):
        sim = self

        def learn(self_a, state, action, reward, next_state):
            sim.learn_log.append((int(action), float(reward)))
            sim.log.add("learn", int(action), repr(float(reward)))
            return orig(self_a, state, action, reward, next_state)
        return learn

    # ---- set-up / tear-down ---------------------------------------------------------------
    def install(self):
        import_all_black_it()
        import queue as _q
        import threading as _th
        import time as _time

        import joblib
        from sklearn.ensemble import RandomForestClassifier

        from black_it.loss_functions.base import BaseLoss
        from black_it.samplers.base import BaseSampler
        from black_it.schedulers.base import BaseScheduler
        from black_it.schedulers.rl.agents.base import Agent
        sm = self.seams
        sim = self
        if not self.env.get("real_pool"):
            sm.replace_global("parallel", joblib.Parallel, lambda n_jobs=None, *a, **kw: SimParallel(sim, n_jobs=n_jobs, **kw))
        else:
            self.stats["real-joblib-loky"] += 1
        sm.replace_global("clock", _time, SimClock({int(k): v for k, v in self.env["clock_jumps"].items()}))
        self.baton = Baton(self.env["sched"])
        sm.replace_global("threading", _th, ThreadingShim(self.baton))
        qshim = QueueModuleShim(self.baton)
        sm.replace_global("Queue", _q.Queue, qshim.Queue)
        sm.replace_global("queue", _q, qshim)

        def rf_one_thread(*a, **kw):
            kw["n_jobs"] = 1
            return RandomForestClassifier(*a, **kw)
        sm.replace_global("rf", RandomForestClassifier, rf_one_thread)
        wrap_methods(sm, BaseSampler, "sample", self._wrap_sample)
        wrap_methods(sm, BaseLoss, "compute_loss", self._wrap_loss)
        wrap_methods(sm, BaseScheduler, "get_next_sampler", self._wrap_next)
        wrap_methods(sm, BaseScheduler, "update", self._wrap_update)
        wrap_methods(sm, Agent, "policy", self._wrap_policy)
        wrap_methods(sm, Agent, "learn", self._wrap_learn)
        if self.env.get("trace_lines"):
            self.baton.install_tracing(lambda fn: "black_it/schedulers/" in fn.replace("\\", "/"))
        # ambient state the result must not depend on
        np.random.seed(self.env["ambient"] % (2 ** 32))  # noqa: NPY002
        random.seed(self.env["ambient"])
        models.reset_script(self.cfg.get("script"), self.cfg.get("script_per", 1))
        baton = self.baton
        models.YIELD["fn"] = lambda: baton.yield_point("model")
        peers.reset_records()

    def teardown(self):
        models.YIELD["fn"] = None
        try:
            if self.baton is not None:
                self.leaked = self.baton.live_sim_threads()
                if self.baton.switches:
                    self.stats["preempt@thread"] += self.baton.switches
                    self.stats["line_preemption_points"] += self.baton.line_points
                    self.stats["scheduler_steps"] += self.baton.steps
                self.baton.shutdown()
        finally:
            self.seams.undo()
            if self.env.get("real_pool"):
                try:
                    from joblib.externals.loky import get_reusable_executor
                    get_reusable_executor().shutdown(wait=True)
                except Exception:  # noqa: BLE001
                    pass
            if self.scratch is not None and not self.env.get("keep_scratch"):
                shutil.rmtree(self.scratch, ignore_errors=True)

    # ---- building ---------------------------------------------------------------------------
    def build(self, cfg=None, folder=None):
        from black_it.calibrator import Calibrator
        cfg = cfg or self.cfg
        cs = self.env["ctor_seed"]
        seeds = random.Random(derive_seed("ctor", cs))
        def cseed():
            return None if cs is None else gen_seed(seeds)
        samplers = []
        for s in cfg["lineup"]:
            if s.get("alias_of") is not None:
                samplers.append(samplers[s["alias_of"]])       # the same object listed at two positions of the line-up
            else:
                samplers.append(make_sampler(s, cseed()))
        if any(s.get("alias_of") is not None for s in cfg["lineup"]):
            # which object is which must survive pickling: a tag on the instances (only in line-ups that repeat an object)
            for k, smp in enumerate(samplers):
                if not hasattr(smp, "_verif_tag"):
                    smp._verif_tag = k  # noqa: SLF001
            self.supplied_tags = [smp._verif_tag for smp in samplers]  # noqa: SLF001
        m = cfg["model"]
        self.model = models.HarnessModel(m["kind"], m["D"], m.get("extreme", 0.0), m.get("mutates", False), m.get("scale", 1.0))
        real = models.real_data_for(m["kind"], m["D"], cfg["N"], cfg["real_seed"])
        kw = {}
        if cfg["scheduler"]["kind"] == "rl":
            kw["scheduler"] = make_scheduler(cfg["scheduler"], samplers, cseed())
        else:
            kw["samplers"] = samplers
        return Calibrator(
            loss_function=make_loss(cfg["loss"]), real_data=real, model=self.model,
            parameters_bounds=cfg["space"]["bounds"], parameters_precision=cfg["space"]["precision"],
            ensemble_size=cfg["ensemble"], sim_length=cfg["sim_length"],
            convergence_precision=cfg.get("convergence_precision"), verbose=self.env["verbose"],
            saving_folder=folder, random_state=cfg["cal_seed"], n_jobs=self.env["n_jobs"], **kw)

    def new_folder(self, name="ckpt"):
        if self.scratch is None:
            base = os.environ.get("VERIF_SCRATCH") or tempfile.gettempdir()
            self.scratch = tempfile.mkdtemp(prefix="verif-calsim-", dir=base)
        return str(Path(self.scratch) / name)

    # ---- running ----------------------------------------------------------------------------
    def snapshot(self, cal=None):
        cal = cal or self.cal
        return {
            "params": cal.params_samp.copy(), "losses": cal.losses_samp.copy(), "series": cal.series_samp.copy(),
            "batch_num": cal.batch_num_samp.copy(), "method": cal.method_samp.copy(),
            "n": int(cal.n_sampled_params), "batch_index": int(cal.current_batch_index),
        }

    def do_calibrate(self, n):
        cal = self.cal
        self.prefix_digest = (cal.n_sampled_params, self._prefix(cal, cal.n_sampled_params))
        first = len(self.batches)
        res = {"op": ["calibrate", n], "exc": None, "ret": None, "first_batch_rec": first}
        try:
            ret = cal.calibrate(n)
            res["ret"] = (np.array(ret[0], copy=True), np.array(ret[1], copy=True))
        except (InjectedFault, InjectedInterrupt) as e:
            res["exc"] = ("InjectedFault", str(e))
        except (Deadlock, StepLimit) as e:
            res["exc"] = (type(e).__name__, str(e))
            res["fatal"] = True
        except SimCrash:
            raise
        except Exception as e:  # noqa: BLE001
            res["exc"] = (type(e).__name__, str(e)[:300])
        res["n_batches"] = len(self.batches) - first
        res["snap"] = self.snapshot()
        # only the exception type goes into the event log: messages may carry timestamps or addresses (XGBoost does)
        self.log.add("calibrate-end", n, res["exc"][0] if res["exc"] else None, arr_digest(cal.params_samp), arr_digest(cal.losses_samp),
                     arr_digest(cal.series_samp), arr_digest(cal.batch_num_samp), arr_digest(cal.method_samp))
        self._check_prefix("calibrate-end")
        return res

    def run_prelude(self, seed):
        """process history: an unrelated small calibration (other dimensions, stateful samplers) runs to completion in this
        process before the one under observation is even built"""
        from black_it.calibrator import Calibrator
        prng = random.Random(seed)
        dims = prng.randint(1, 3)
        cfg = {"space": gen_space(prng, dims), "lineup": [gen_sampler_spec(prng, k, 2) for k in ("halton", "rseq", "pso", "bestbatch")],
               "scheduler": {"kind": "rr"}, "loss": {"cls": "minkowski", "opts": {}}, "model": {"kind": "gauss", "D": 1, "extreme": 0.0},
               "N": 8, "sim_length": None, "real_seed": 1, "ensemble": 1, "cal_seed": gen_seed(prng), "convergence_precision": None}
        keep_model = self.model
        cal = self.build(cfg, folder=None)
        saved, self.cal = self.cal, None          # seam recorders ignore the prelude
        self._prelude = True
        try:
            cal.calibrate(4)
        except Exception:  # noqa: BLE001
            pass
        finally:
            self._prelude = False
        self.cal = saved
        self.model = keep_model
        self.stats["prelude-calibrations"] += 1

    def completed_batches(self, cal=None):
        """Batch records whose rows are in the history (the last record per starting row wins)."""
        cal = cal or self.cal
        by_start = {}
        for b in self.batches:
            by_start[b.hist_len] = b
        out = []
        for h in sorted(by_start):
            b = by_start[h]
            if b.returned is not None and h + len(b.returned) <= cal.n_sampled_params:
                out.append(b)
        return out

    def run(self):
        """Execute the op list.  Returns self; never raises for outcomes of black-it code."""
        with contextlib.redirect_stdout(self.sink), warnings.catch_warnings():
            warnings.simplefilter("ignore")
            self.install()
            try:
                if self.env.get("prelude"):
                    self.run_prelude(self.env["prelude"])
                if self.env["folder"]:
                    self.folder = self.new_folder()
                self.cal = self.build(folder=self.folder)
                for op in self.ops:
                    r = self.do_op(op)
                    self.op_results.append(r)
                    if r.get("fatal"):
                        break
                self.finish()
            finally:
                self.teardown()
        return self

    snapshot_final = None

    def finish(self):
        self.snapshot_final = self.snapshot() if self.cal is not None else None

    def do_op(self, op):
        from black_it.calibrator import Calibrator
        kind = op[0]
        if kind == "calibrate":
            return self.do_calibrate(op[1])
        if kind == "calibrate_crash":
            # process death inside the batch loop: the k-th model call from now on never returns
            _, n, k = op
            key = ("model", self.n_model + k)
            f = {"kind": "crash", "seam": "model", "at": self.n_model + k}
            self.fault_idx[key] = f
            try:
                r = self.do_calibrate(n)
                r["crashed"] = False          # the calibration ended before reaching the crash point
            except SimCrash:
                r = {"op": op, "exc": ("SimCrash", ""), "ret": None, "crashed": True, "snap": None}
                self.stats["crash@batch"] += 1
                self.log.add("crash", self.n_model)
                self.abandon()
            self.fault_idx.pop(key, None)
            return r
        if kind == "calibrate_fault":
            # the k-th model call from now on raises; the live object survives and is used again
            _, n, k = op
            key = ("model", self.n_model + k)
            self.fault_idx[key] = {"kind": "raise", "seam": "model", "at": self.n_model + k}
            r = self.do_calibrate(n)
            self.fault_idx.pop(key, None)
            return r
        if kind == "calibrate_fault_update":
            # the scheduler's update hook raises at its k-th call from now on (a user-defined scheduler bug, an interrupt)
            _, n, k = op
            key = ("update", self.n_update + k)
            self.fault_idx[key] = {"kind": "raise", "seam": "update", "at": self.n_update + k}
            r = self.do_calibrate(n)
            self.fault_idx.pop(key, None)
            return r
        if kind == "crash":
            self.stats["crash@between-batches"] += 1
            self.abandon()
            return {"op": op, "exc": None, "ret": None, "snap": None}
        if kind == "restore":
            r = {"op": op, "exc": None, "ret": None, "snap": None}
            target = self.folder if len(op) < 2 else self.named_folder(op[1])
            if target is None or not os.path.exists(os.path.join(target, "calibration_params.json")):
                # nothing was ever saved there (e.g. the only calibrate() so far raised): there is nothing to restore from
                self.stats["restore-skipped:no-checkpoint"] += 1
                if self.cal is None:
                    # the process died before anything was saved: the user starts again from the configuration
                    self.cal = self.build(self.cfg, folder=self.folder)
                    self.batches = []
                    self.policy_log = []
                    self.timeline = []
                    self.stats["restart-from-configuration"] += 1
                r["snap"] = self.snapshot()
                r["skipped"] = True
                self.log.add("restore", "skipped")
                return r
            self.abandon()
            try:
                self.cal = Calibrator.restore_from_checkpoint(self.folder if len(op) < 2 else self.named_folder(op[1]), model=self.model)
                r["snap"] = self.snapshot()
                self.stats["restore"] += 1
            except Exception as e:  # noqa: BLE001
                r["exc"] = (type(e).__name__, str(e)[:300])
                r["fatal"] = True
            self.log.add("restore", r["exc"][0] if r["exc"] else None)
            return r
        if kind == "fresh_continue":
            # the process dies; a brand-new interpreter restores from the folder, runs n batches and exits;
            # then this process restores what that one left behind
            import subprocess
            import sys as _sys
            self.abandon()
            m = self.cfg["model"]
            script = str(Path(__file__).resolve().parent / "fresh_restore.py")
            env = dict(os.environ)
            env["PYTHONHASHSEED"] = str(derive_seed("fresh", len(self.op_results)) % 4294967295)
            p = subprocess.run([_sys.executable, script, self.folder, m["kind"], str(m["D"]), str(m.get("extreme", 0.0)), str(op[1])],
                               capture_output=True, text=True, timeout=300, env=env)
            self.stats["restore-in-fresh-interpreter"] += 1
            if "FRESH-OK" not in p.stdout:
                return {"op": op, "exc": ("FreshInterpreterFailed", (p.stderr or p.stdout)[-300:]), "ret": None, "snap": None, "fatal": True}
            self.log.add("fresh-continue", op[1], p.stdout.strip().splitlines()[-1])
            return self.do_op(["restore"])
        if kind == "checkpoint":
            r = {"op": op, "exc": None, "ret": None, "snap": self.snapshot()}
            try:
                self.cal.create_checkpoint(self.named_folder(op[1]))
            except Exception as e:  # noqa: BLE001
                r["exc"] = (type(e).__name__, str(e)[:300])
            return r
        if kind == "new_run":
            # a different calibration is started in the same saving folder (stale-folder fault)
            self.abandon()
            self.cfg = op[1]
            self.fault_idx = dict(self.fault_idx)
            self.cal = self.build(self.cfg, folder=self.folder)
            self.batches = []
            self.stats["stale-folder"] += 1
            return {"op": ["new_run"], "exc": None, "ret": None, "snap": self.snapshot()}
        if kind == "set_samplers":
            cs = random.Random(derive_seed("set_samplers", len(self.op_results)))
            self.cal.set_samplers([make_sampler(sp, gen_seed(cs)) for sp in op[1]])
            return {"op": op, "exc": None, "ret": None, "snap": self.snapshot()}
        if kind == "set_scheduler":
            from black_it.schedulers.round_robin import RoundRobinScheduler
            cs = random.Random(derive_seed("set_scheduler", len(self.op_results)))
            samplers = [make_sampler(sp, gen_seed(cs)) for sp in op[1]["lineup"]]
            if op[1].get("kind", "rr") == "rl":
                sch = make_scheduler(op[1], samplers, gen_seed(cs))
            else:
                sch = RoundRobinScheduler(samplers, random_state=gen_seed(cs))   # None would reseed from OS entropy
            self.cal.set_scheduler(sch)
            return {"op": op, "exc": None, "ret": None, "snap": self.snapshot()}
        raise ValueError(op)

    def named_folder(self, name):
        return self.new_folder(f"ckpt-{name}")

    def abandon(self):
        """The process dies: every live reference is dropped, ambient state is perturbed; only the folder survives."""
        if self.baton is not None:
            # threads of the dead process die with it
            self.baton.shutdown()
            self.seams.undo()
            self.seams = Seams()
            keep = (self.env, self.scratch)
            self.install()
            self.env, self.scratch = keep
        self.cal = None
        self.cur = None
        self.prefix_digest = None
        import gc
        gc.collect()
        np.random.seed((self.env["ambient"] + 17 * (len(self.op_results) + 1)) % (2 ** 32))  # noqa: NPY002

    def digest(self):
        self.log.add("stdout", self.sink.n, self.sink.lines)
        return self.log.digest()


def hist_equal(a: dict, b: dict):
    """Bitwise comparison of two history snapshots; returns list of differing fields."""
    diffs = []
    for k in ("params", "losses", "series", "batch_num", "method"):
        x, y = a[k], b[k]
        if x.dtype != y.dtype or x.shape != y.shape or x.tobytes() != y.tobytes():
            diffs.append(k)
    for k in ("n", "batch_index"):
        if a[k] != b[k]:
            diffs.append(k)
    return diffs


def lineup_ok(cfg) -> bool:
    """generator invariant: whatever the scheduler designates can run on a history that holds the first batch"""
    lu = cfg["lineup"]
    if not lu:
        return False
    if cfg["scheduler"]["kind"] == "rl":
        need = max([s["batch_size"] for s in lu if s["cls"] == "bestbatch"] + [1])
        hs = [s["batch_size"] for s in lu if s["cls"] == "halton"]
        return all(h >= need for h in hs) if hs else need == 1
    need = max([s["batch_size"] for s in lu[1:] if s["cls"] == "bestbatch"] + [1])
    return lu[0]["cls"] in HISTORY_FREE and lu[0]["batch_size"] >= need


def shrink_scn(scn: dict):
    """shrink candidates that keep the generator's line-up invariant (a scenario that merely violates a sampler's
    precondition is not a simpler instance of the same failure)"""
    ok0 = lineup_ok(scn["config"])
    for c in _shrink_scn(scn):
        if not ok0 or lineup_ok(c["config"]):
            yield c


def _shrink_scn(scn: dict):
    """Generic shrinking lattice for calsim scenarios (DESIGN 3.7): fewer ops/batches, fewer samplers,
    simpler loss/model/environment, fewer dimensions."""
    import copy
    ops = scn.get("ops", [])
    for i in range(len(ops) - 1, -1, -1):
        if len(ops) > 1:
            c = copy.deepcopy(scn)
            del c["ops"][i]
            yield c
    for i, op in enumerate(ops):
        if op[0] in ("calibrate",) and op[1] > 1:
            for n in sorted({1, op[1] // 2, op[1] - 1}):
                if 1 <= n < op[1]:
                    c = copy.deepcopy(scn)
                    c["ops"][i][1] = n
                    yield c
    cfg = scn["config"]
    if len(cfg["lineup"]) > 1:
        for i in range(len(cfg["lineup"]) - 1, -1, -1):
            c = copy.deepcopy(scn)
            del c["config"]["lineup"][i]
            for sp in c["config"]["lineup"]:
                if sp.get("alias_of") is not None:
                    if sp["alias_of"] == i:
                        del sp["alias_of"]
                    elif sp["alias_of"] > i:
                        sp["alias_of"] -= 1
            yield c
    for i, s in enumerate(cfg["lineup"]):
        if s["batch_size"] > 1 and s.get("alias_of") is None and not any(x.get("alias_of") == i for x in cfg["lineup"]):
            c = copy.deepcopy(scn)
            c["config"]["lineup"][i]["batch_size"] -= 1
            yield c
    env = scn.get("env", {})
    for k, v in BASE_ENV.items():
        if k in env and env[k] != v and k not in ("sched",):
            c = copy.deepcopy(scn)
            c["env"][k] = v
            yield c
    if cfg["ensemble"] > 1:
        c = copy.deepcopy(scn)
        c["config"]["ensemble"] = 1
        yield c
    if cfg["loss"]["cls"] != "minkowski" or cfg["loss"]["opts"]:
        c = copy.deepcopy(scn)
        c["config"]["loss"] = {"cls": "minkowski", "opts": {}}
        yield c
    if cfg["model"]["kind"] not in ("gauss", "scripted") or cfg["model"].get("extreme"):
        c = copy.deepcopy(scn)
        c["config"]["model"] = {"kind": "gauss", "D": cfg["model"]["D"], "extreme": 0.0}
        yield c
    if cfg["loss"]["opts"].get("filters"):
        c = copy.deepcopy(scn)
        del c["config"]["loss"]["opts"]["filters"]
        yield c
    if cfg["model"]["D"] > 1 and not cfg["loss"]["opts"].get("weights") and not cfg["loss"]["opts"].get("filters"):
        c = copy.deepcopy(scn)
        c["config"]["model"]["D"] = 1
        yield c
    dims = len(cfg["space"]["precision"])
    if dims > 1:
        for j in range(dims - 1, -1, -1):
            c = copy.deepcopy(scn)
            for k in (0, 1):
                del c["config"]["space"]["bounds"][k][j]
            del c["config"]["space"]["precision"][j]
            yield c
    if cfg.get("sim_length") is not None:
        c = copy.deepcopy(scn)
        c["config"]["sim_length"] = None
        yield c
    if cfg["scheduler"]["kind"] == "rl" and cfg["scheduler"]["agent"].get("kind") == "eps":
        c = copy.deepcopy(scn)
        c["config"]["scheduler"]["agent"] = {"kind": "scripted", "script": [0, 1, 2]}
        yield c


def _feq(a, b):
    """float equality that treats NaN == NaN and compares bit patterns otherwise"""
    a = np.float64(a)
    b = np.float64(b)
    return a.tobytes() == b.tobytes() or (np.isnan(a) and np.isnan(b))


def check_history(sim: "CalSim", pristine_loss=None, ret=None):
    """RefHistory (C02): what the five arrays must contain, rebuilt from the seam recordings.
    Returns a list of (clause, site, detail)."""
    cal = sim.cal
    out = []
    n = int(cal.n_sampled_params)
    arrays = {"params_samp": cal.params_samp, "losses_samp": cal.losses_samp, "series_samp": cal.series_samp,
              "batch_num_samp": cal.batch_num_samp, "method_samp": cal.method_samp}
    for name, a in arrays.items():
        if len(a) != n:
            out.append(("length", name, f"len({name}) = {len(a)} but the sample counter is {n} "
                                       f"(lengths: { {k: len(v) for k, v in arrays.items()} })"))
    if out:
        return out
    done = sim.completed_batches(cal)
    rows = 0
    E = cal.ensemble_size  # noqa: N806
    for ordinal, b in enumerate(done):
        h, bs = b.hist_len, len(b.returned)
        if h != rows:
            out.append(("rows-unaccounted", "calibrator", f"batch starting at row {h} but {rows} rows are accounted for by earlier batches"))
            return out
        sl = slice(h, h + bs)
        if cal.params_samp[sl].tobytes() != b.returned.tobytes():
            out.append(("params-not-proposed", "calibrator", f"rows {h}..{h + bs - 1} of params_samp differ from what {b.cls}.sample() returned: "
                                                      f"{cal.params_samp[sl].tolist()} vs {b.returned.tolist()}"))
        if len(b.calls) != bs * E:
            out.append(("model-call-count", "calibrator", f"batch of {bs} points with ensemble {E} made {len(b.calls)} model calls"))
        else:
            for r in range(bs):
                for e in range(E):
                    idx, theta, N, seed, result = b.calls[r * E + e]  # noqa: N806
                    if theta is None or np.asarray(theta).tobytes() != cal.params_samp[h + r].tobytes():
                        out.append(("model-called-on-other-vector", "calibrator",
                                    f"row {h + r} member {e}: model called with {np.asarray(theta).tolist()}, recorded parameters {cal.params_samp[h + r].tolist()}"))
                        break
                    if N != cal.N:
                        out.append(("sim-length", "calibrator", f"model called with N={N}, configured simulation length {cal.N}"))
                        break
                    if result is None or np.asarray(result).tobytes() != cal.series_samp[h + r, e].tobytes():
                        out.append(("series-not-model-output", "calibrator",
                                    f"series_samp[{h + r}, {e}] is not the output of the model run on that row's parameters with seed {seed} (task {idx})"))
                        break
                else:
                    continue
                break
        if len(b.losses) != bs:
            out.append(("loss-call-count", "calibrator", f"batch of {bs} points made {len(b.losses)} loss evaluations"))
        else:
            for r in range(bs):
                din, val = b.losses[r]
                if din != arr_digest(cal.series_samp[h + r]):
                    out.append(("loss-on-other-series", "calibrator", f"the loss recorded for row {h + r} was computed on series that are not series_samp[{h + r}]"))
                    break
                if not _feq(val, cal.losses_samp[h + r]):
                    out.append(("loss-not-recorded", "calibrator", f"losses_samp[{h + r}] = {cal.losses_samp[h + r]!r} but the loss function returned {val!r} for that row"))
                    break
                if pristine_loss is not None:
                    try:
                        again = pristine_loss.compute_loss(cal.series_samp[h + r], cal.real_data)
                    except Exception as e:  # noqa: BLE001
                        again = None
                        out.append(("loss-recompute-raises", type(e).__name__, f"pristine loss raised {e!r} on row {h + r}"))
                        break
                    if not _feq(again, cal.losses_samp[h + r]):
                        out.append(("loss-not-a-function-of-row", type(pristine_loss).__name__,
                                    f"losses_samp[{h + r}] = {cal.losses_samp[h + r]!r}; a pristine copy of the loss gives {again!r} on exactly those series (stateful loss?)"))
                        break
        if not (cal.batch_num_samp[sl] == ordinal).all():
            out.append(("batch-label", "calibrator", f"rows {h}..{h + bs - 1} (batch #{ordinal} of the calibration) carry batch labels {cal.batch_num_samp[sl].tolist()}"))
        want = cal.samplers_id_table.get(b.cls)
        if not (cal.method_samp[sl] == want).all():
            out.append(("sampler-label", "calibrator", f"rows {h}..{h + bs - 1} produced by {b.cls} (id {want}) carry sampler labels {cal.method_samp[sl].tolist()}"))
        rows += bs
    if rows != n:
        out.append(("rows-unaccounted", "tail", f"history has {n} rows, recorded completed batches account for {rows}"))
    if ret is not None:
        rp, rl = ret
        if len(rp) != n or len(rl) != n:
            out.append(("return-length", "calibrate", f"calibrate() returned {len(rp)} rows, history has {n}"))
        else:
            fin = ~np.isnan(rl)
            if (np.diff(rl[fin]) < 0).any():
                out.append(("return-order", "calibrate", f"returned losses are not non-decreasing: {rl.tolist()[:12]}"))
            a = sorted((tuple(p), repr(float(l))) for p, l in zip(rp.tolist(), rl.tolist()))
            b2 = sorted((tuple(p), repr(float(l))) for p, l in zip(cal.params_samp.tolist(), cal.losses_samp.tolist()))
            if a != b2:
                out.append(("return-content", "calibrate", "returned (parameter, loss) pairs are not the recorded ones"))
    return out
