"""Core of the simulator: PRNG derivation, event log, violations, worker pool, runner,
minimiser, replay files, known findings, evidence.  See DESIGN.md section 3.

Everything a run does is a function of (VERIF_SEED, property id, run index): `derive_rng` is the
only source of entropy, logging never draws from it and never reads a clock.
"""
from __future__ import annotations

import faulthandler
import importlib
import fnmatch
import hashlib
import json
import multiprocessing as mp
import os
import random
import signal
import subprocess
import sys
import time
import traceback
from collections import Counter
from pathlib import Path

import numpy as np

HOME = Path(os.environ.get("VERIF_HOME", Path(__file__).resolve().parent.parent))
REPO = Path(os.environ.get("VERIF_REPO", "/repo"))
JOBS = int(os.environ.get("VERIF_JOBS", "16"))


# --------------------------------------------------------------------------------------------
# PRNG and digests

def derive_seed(*parts) -> int:
    h = hashlib.sha256("/".join(str(p) for p in parts).encode()).digest()
    return int.from_bytes(h[:8], "big")


def derive_rng(*parts) -> random.Random:
    return random.Random(derive_seed(*parts))


def arr_digest(a) -> str:
    """Stable digest of an array (dtype, shape, bytes)."""
    a = np.asarray(a)
    h = hashlib.sha1()
    h.update(str(a.dtype).encode())
    h.update(str(a.shape).encode())
    h.update(np.ascontiguousarray(a).tobytes())
    return h.hexdigest()[:16]


def jdigest(obj) -> str:
    return hashlib.sha256(json.dumps(obj, sort_keys=True, default=_jsonable).encode()).hexdigest()[:24]


def _jsonable(o):
    if isinstance(o, np.ndarray):
        return {"__nd__": arr_digest(o)}
    if isinstance(o, (np.integer,)):
        return int(o)
    if isinstance(o, (np.floating,)):
        return float(o)
    if isinstance(o, (np.bool_,)):
        return bool(o)
    if isinstance(o, (set, frozenset)):
        return sorted(o)
    if isinstance(o, bytes):
        return o.hex()
    return repr(o)


class EventLog:
    """Ordered list of primitive tuples; its digest identifies an execution."""

    def __init__(self, keep: int = 400):
        self._h = hashlib.sha256()
        self.n = 0
        self.keep = keep
        self.head: list = []

    def add(self, *ev):
        s = json.dumps(ev, default=_jsonable)
        self._h.update(s.encode())
        self._h.update(b"\n")
        if self.n < self.keep:
            self.head.append(ev)
        self.n += 1

    def digest(self) -> str:
        return self._h.hexdigest()[:24]


# --------------------------------------------------------------------------------------------
# Outcomes

class HarnessError(Exception):
    """Something wrong with the machinery, never a property violation (exit 2)."""


class Discard(Exception):
    """The scenario cannot be judged (third-party numerical failure, cap reached)."""


class RunTimeout(BaseException):
    pass


def violation(clause: str, site: str, detail: str) -> dict:
    return {"clause": clause, "site": site, "detail": detail[:2000]}


def sig(pid: str, v: dict) -> str:
    return f"{pid}/{v['clause']}/{v['site']}"


class Result:
    """What one simulated run reports back to the runner (must be picklable and small)."""

    def __init__(self):
        self.violations: list[dict] = []
        self.stats: Counter = Counter()   # fault kinds fired, probes, steps
        self.key: str | None = None       # distinctness key; None = trivial run
        self.digest: str = ""
        self.discarded: str | None = None
        self.sample = None                # something printable that shows what the run looked like
        self.extra_keys: list[str] = []   # additional distinct non-trivial cases covered by this run

    def add(self, clause, site, detail):
        v = violation(clause, site, detail)
        # one report per signature per run
        if not any(w["clause"] == clause and w["site"] == site for w in self.violations):
            self.violations.append(v)

    def pack(self):
        return {"violations": self.violations, "stats": dict(self.stats), "key": self.key,
                "digest": self.digest, "discarded": self.discarded, "sample": self.sample,
                "extra_keys": self.extra_keys}


# --------------------------------------------------------------------------------------------
# Worker pool with per-item deadlines (a hung worker is killed and replaced)

def _worker_loop(func, task_q, res_q, wid):
    # each worker is a forked copy of the parent with black_it not yet exercised
    signal.signal(signal.SIGINT, signal.SIG_IGN)
    try:
        os.setsid()          # own process group: a deadline kill takes the forked run (and its subprocesses) with it
    except OSError:
        pass
    while True:
        item = task_q.get()
        if item is None:
            return
        idx, arg = item
        res_q.put(("start", wid, idx, None))
        try:
            r = func(arg)
            res_q.put(("done", wid, idx, r))
        except BaseException as e:  # noqa: BLE001
            res_q.put(("error", wid, idx, "".join(traceback.format_exception(e))[-4000:]))


class Pool:
    def __init__(self, func, jobs: int, item_timeout: float):
        self.ctx = mp.get_context("fork")
        self.func = func
        self.jobs = max(1, jobs)
        self.item_timeout = item_timeout
        self.task_q = self.ctx.Queue()
        self.res_q = self.ctx.Queue()
        self.workers: dict[int, mp.Process] = {}
        self.running: dict[int, tuple[int, float]] = {}   # wid -> (idx, start)
        self._next_wid = 0
        for _ in range(self.jobs):
            self._spawn()

    def _spawn(self):
        wid = self._next_wid
        self._next_wid += 1
        p = self.ctx.Process(target=_worker_loop, args=(self.func, self.task_q, self.res_q, wid), daemon=True)
        p.start()
        self.workers[wid] = p

    def run(self, items, wall_budget: float | None = None, on_result=None):
        """items: iterator of (idx, arg). Yields nothing; calls on_result(idx, kind, payload)."""
        t0 = time.time()
        it = iter(items)
        outstanding = 0
        submitted: dict[int, object] = {}
        exhausted = False

        def feed():
            nonlocal outstanding, exhausted
            while not exhausted and outstanding < 2 * self.jobs:
                if wall_budget is not None and time.time() - t0 > wall_budget:
                    exhausted = True
                    break
                try:
                    idx, arg = next(it)
                except StopIteration:
                    exhausted = True
                    break
                submitted[idx] = arg
                self.task_q.put((idx, arg))
                outstanding += 1

        feed()
        while outstanding > 0:
            try:
                kind, wid, idx, payload = self.res_q.get(timeout=0.5)
            except Exception:  # queue.Empty
                kind = None
            now = time.time()
            if kind is not None and wid not in self.workers:
                continue          # late message of a worker that was already killed and replaced
            if kind == "start":
                self.running[wid] = (idx, now)
            elif kind in ("done", "error"):
                self.running.pop(wid, None)
                outstanding -= 1
                submitted.pop(idx, None)
                on_result(idx, kind, payload)
                feed()
            # deadlines and dead workers
            for wid, (idx, st) in list(self.running.items()):
                p = self.workers.get(wid)
                if p is None:
                    self.running.pop(wid, None)
                    continue
                if now - st > self.item_timeout or not p.is_alive():
                    why = "timeout" if p.is_alive() else "worker-died"
                    try:
                        os.killpg(p.pid, signal.SIGKILL)
                    except Exception:  # noqa: BLE001
                        try:
                            p.kill()
                        except Exception:  # noqa: BLE001
                            pass
                    p.join(1)
                    self.running.pop(wid, None)
                    self.workers.pop(wid, None)
                    outstanding -= 1
                    submitted.pop(idx, None)
                    on_result(idx, why, None)
                    self._spawn()
                    feed()

    def close(self):
        for _ in self.workers:
            self.task_q.put(None)
        for p in self.workers.values():
            p.join(2)
            if p.is_alive():
                p.kill()


# --------------------------------------------------------------------------------------------
# Known findings

def load_known() -> list[dict]:
    f = HOME / "known_findings.json"
    if not f.exists():
        return []
    data = json.loads(f.read_text())
    return [e for e in data.get("findings", []) if e.get("status", "known") == "known"]


def match_known(known: list[dict], pid: str, signature: str):
    for e in known:
        if e["property"] == pid and fnmatch.fnmatchcase(signature, e["signature"]):
            return e
    return None


# --------------------------------------------------------------------------------------------
# The check protocol

def preload():
    """Import everything a run may need *before* the pool is forked: workers and the per-run children then share the
    loaded modules copy-on-write (imports only - no black-it object is created in the parent)."""
    from sim.seams import import_all_black_it
    import_all_black_it()
    for m in ("black_it.plot.plot_results", "sklearn.ensemble", "sklearn.gaussian_process", "xgboost", "pandas", "h5py", "scipy.optimize",
              "scipy.stats", "cloudpickle", "joblib", "sim.calsim", "sim.rlsim", "sim.compsim", "sim.diskcrash", "sim.deep", "sim.peers"):
        try:
            importlib.import_module(m)
        except Exception:  # noqa: BLE001
            pass


_SUBPROC_OK = None


def subprocess_ok() -> bool:
    """Can this sandbox start a fresh interpreter that imports black_it and the harness peers?  The confirmation
    features that need one (fresh-interpreter twins, real threads, real worker processes, strace) are skipped, and
    counted as skipped, where it cannot - they are confirmations of the simulation, not the simulation."""
    global _SUBPROC_OK
    if _SUBPROC_OK is None:
        if os.environ.get("VERIF_NO_SUBPROCESS") == "1":
            _SUBPROC_OK = False
            return False
        try:
            p = subprocess.run([sys.executable, "-c", "import black_it, sim.models, sim.calsim; print('ok')"],
                               capture_output=True, text=True, timeout=120)
            _SUBPROC_OK = p.returncode == 0 and "ok" in p.stdout
        except Exception:  # noqa: BLE001
            _SUBPROC_OK = False
    return _SUBPROC_OK


class Check:
    """A property check: scenario generator + simulated run + shrinker.  Subclasses live in sim/props."""

    pid = "C00"
    level = "exploration"
    engine = ""
    rule = ""
    assumptions: list[str] = []
    quick = {"runs": 200, "wall": 60, "item_timeout": 30}
    thorough = {"runs": 5000, "wall": 900, "item_timeout": 90}
    audit = {"quick": 6, "thorough": 24}       # determinism pairs re-executed per tier

    def gen(self, rng: random.Random, tier: str, i: int) -> dict:
        raise NotImplementedError

    def run(self, scn: dict) -> Result:
        raise NotImplementedError

    def shrink(self, scn: dict):
        """Yield simpler candidate scenarios (each a fresh dict)."""
        return iter(())

    def summary_extra(self, agg: dict) -> dict:
        return {}


def _exec_one(check: Check, scn: dict) -> dict:
    """Run one scenario with a wall-clock cap; classify harness problems apart from violations."""
    try:
        r = check.run(scn)
        return r.pack()
    except Discard as d:
        r = Result()
        r.discarded = f"discard: {d}"
        return r.pack()
    except Exception as e:  # noqa: BLE001
        # An exception that escapes a check is a harness error - unless it was raised *by the code under test* on an input the
        # check considers legal (every check runs clean on the unchanged tree, so there such an exception is itself the news).
        tb = e.__traceback__
        last = None
        while tb is not None:
            last = tb
            tb = tb.tb_next
        fn = (last.tb_frame.f_code.co_filename if last is not None else "").replace("\\", "/")
        repo = os.path.realpath(os.environ.get("VERIF_REPO", "/repo")) + "/black_it/"
        if not os.path.realpath(fn).startswith(repo):
            raise
        r = Result()
        where = os.path.relpath(os.path.realpath(fn), repo)
        r.add("raised-by-black-it", f"{type(e).__name__}:{where}",
              f"{type(e).__name__}: {str(e)[:200]} raised at black_it/{where}:{last.tb_lineno} on an input the check treats as legal; "
              f"call chain: {' <- '.join(f.name for f in reversed(traceback.extract_tb(e.__traceback__)[-5:]))}")
        r.digest = jdigest(["raised-by-black-it", type(e).__name__, where])
        return r.pack()


_CHECK: Check | None = None


def _isolated(func, arg):
    """Run func(arg) in a forked child of this (pristine) worker, so that no process-level state of the code under test
    (class-level caches, module globals, registered adapters) can leak from one simulated run into the next: every run
    starts from the same process image, which is what makes a run a function of its scenario alone."""
    import pickle
    if os.environ.get("VERIF_NO_FORK") == "1":
        return func(arg)
    r, w = os.pipe()
    pid = os.fork()
    if pid == 0:
        code = 0
        try:
            os.close(r)
            try:
                data = pickle.dumps(("ok", func(arg)))
            except BaseException as e:  # noqa: BLE001
                data = pickle.dumps(("err", "".join(traceback.format_exception(e))[-4000:]))
            with os.fdopen(w, "wb") as f:
                f.write(data)
        except BaseException:  # noqa: BLE001
            code = 1
        finally:
            os._exit(code)
    os.close(w)
    chunks = []
    with os.fdopen(r, "rb") as f:
        while True:
            b = f.read(1 << 16)
            if not b:
                break
            chunks.append(b)
    os.waitpid(pid, 0)
    if not chunks:
        raise RuntimeError("isolated run died without a result")
    kind, payload = pickle.loads(b"".join(chunks))
    if kind == "err":
        raise RuntimeError("isolated run raised:\n" + payload)
    return payload


def _pool_entry(arg):
    return _isolated(_pool_entry_inner, arg)


def _pool_entry_inner(arg):
    seed, i, tier, mode = arg
    check = _CHECK
    rng = derive_rng(seed, check.pid, i)
    scn = check.gen(rng, tier, i)
    scn.setdefault("property", check.pid)
    scn["verif_seed"] = seed
    scn["run_index"] = i
    out = _exec_one(check, scn)
    if out["violations"] or mode == "sample":
        out["scenario"] = scn
    return out


def run_in_fresh_interpreter(pid: str, replay_path: Path, hashseed: str = "0", timeout: float = 600):
    env = dict(os.environ)
    env["PYTHONHASHSEED"] = hashseed
    p = subprocess.run([str(HOME / "bin" / "check"), pid, "--replay", str(replay_path), "--json"],
                       capture_output=True, text=True, env=env, timeout=timeout)
    last = None
    for line in p.stdout.splitlines():
        if line.startswith("REPLAY-RESULT "):
            last = json.loads(line[len("REPLAY-RESULT "):])
    return p.returncode, last, p.stdout[-3000:] + p.stderr[-3000:]


def _exec_candidate(cand):
    return _exec_one(_CHECK, cand)


def minimise(check: Check, scn: dict, signature: str, budget_s: float) -> tuple[dict, int]:
    """Greedy shrinking: accept a candidate iff the same signature reproduces."""
    t0 = time.time()
    best = scn
    tried = 0
    improved = True
    while improved and time.time() - t0 < budget_s:
        improved = False
        for cand in check.shrink(best):
            if time.time() - t0 > budget_s:
                break
            tried += 1
            try:
                # each candidate runs in its own forked child too: what one candidate leaves behind in the process
                # must not decide whether the next one "reproduces"
                out = _isolated(_exec_candidate, cand)
            except BaseException:  # noqa: BLE001
                continue
            if any(sig(check.pid, v) == signature for v in out["violations"]):
                best = cand
                improved = True
                break
    return best, tried


def main_check(check: Check, tier: str, seed: int, replay: str | None, as_json: bool) -> int:
    global _CHECK
    _CHECK = check
    pid = check.pid
    known = load_known()
    faulthandler.enable()

    if replay:
        scn = json.loads(Path(replay).read_text())
        out = _exec_one(check, scn)
        sigs = [sig(pid, v) for v in out["violations"]]
        if as_json:
            print("REPLAY-RESULT " + json.dumps({"sigs": sigs, "digest": out["digest"], "discarded": out["discarded"]}))
        want = scn.get("expect", {}).get("violation")
        for v in out["violations"]:
            print(f"  violation {sig(pid, v)}: {v['detail']}")
        hit = [s for s in sigs if (want is None or s == want)]
        unknown = [s for s in hit if not match_known(known, pid, s)]
        for s in hit:
            e = match_known(known, pid, s)
            if e:
                print(f"KNOWN-FINDING: property={pid} {e['what']} [{s}]")
        if unknown:
            print(f"VIOLATION property={pid} replay={replay}")
            return 1
        print(f"replay: no unlisted violation reproduced (digest {out['digest']})")
        return 0

    cfg = dict(check.quick if tier == "quick" else check.thorough)
    for k in ("runs", "wall"):
        ev = os.environ.get(f"VERIF_{k.upper()}")
        if ev:
            cfg[k] = type(cfg[k])(float(ev))
    t0 = time.time()
    agg = {"stats": Counter(), "keys": set(), "digests": {}, "violations": {}, "samples": [],
           "discards": Counter(), "harness": [], "n": 0}

    def on_result(idx, kind, payload):
        if kind in ("timeout", "worker-died"):
            agg["discards"][kind] += 1
            return
        if kind == "error":
            agg["harness"].append((idx, payload))
            return
        out = payload
        if idx in agg["digests"]:       # determinism audit: second execution of the same (seed, index)
            if agg["digests"][idx] != out["digest"]:
                agg["harness"].append((idx, f"NONDETERMINISM run {idx}: {agg['digests'][idx]} vs {out['digest']}"))
            agg["audit_pairs"] = agg.get("audit_pairs", 0) + 1
            return
        agg["n"] += 1
        agg["digests"][idx] = out["digest"]
        if out["discarded"]:
            agg["discards"][out["discarded"].split(":")[0] + ":" + out["discarded"].split(":")[1][:40]] += 1
            return
        agg["stats"].update(out["stats"])
        if out["key"] is not None:
            agg["keys"].add(out["key"])
        for k in out.get("extra_keys") or ():
            agg["keys"].add(k)
        if out.get("sample") is not None and len(agg["samples"]) < 3:
            agg["samples"].append(out["sample"])
        for v in out["violations"]:
            s = sig(pid, v)
            if s not in agg["violations"]:
                agg["violations"][s] = {"v": v, "scn": out.get("scenario"), "count": 0, "first_run": idx}
            agg["violations"][s]["count"] += 1

    n_runs = cfg["runs"]
    n_audit = check.audit[tier]
    audit_idx = [int(j * max(1, n_runs // max(1, n_audit))) for j in range(n_audit)] if n_runs else []

    def items():
        for i in range(n_runs):
            yield i, (seed, i, tier, "sample" if i < 3 else "plain")
        # determinism audit: same (seed, index) again, most likely on another worker
        for j in audit_idx:
            yield j, (seed, j, tier, "plain")

    preload()
    pool = Pool(_pool_entry, JOBS, cfg["item_timeout"])
    try:
        pool.run(items(), wall_budget=cfg["wall"], on_result=on_result)
    finally:
        pool.close()
    explore_s = time.time() - t0
    audit_pairs = agg.get("audit_pairs", 0)

    # fresh-interpreter determinism probe under another hash seed (one scenario per run of the check)
    fresh_note = "skipped"
    if n_runs and os.environ.get("VERIF_NO_FRESH") != "1":
        rng = derive_rng(seed, pid, 0)
        scn0 = check.gen(rng, tier, 0)
        scn0.setdefault("property", pid)
        scn0["verif_seed"] = seed
        scn0["run_index"] = 0
        scratch = Path(os.environ.get("TMPDIR", "/tmp")) / f"verif-fresh-{pid}-{os.getpid()}.json"
        scratch.write_text(json.dumps(scn0, default=_jsonable))
        try:
            rc, last, txt = run_in_fresh_interpreter(pid, scratch, hashseed="12345", timeout=300)
            if last is None:
                agg["harness"].append((0, "fresh interpreter replay produced no result: " + txt[-800:]))
            elif 0 in agg["digests"] and last["digest"] != agg["digests"][0]:
                agg["harness"].append((0, f"NONDETERMINISM across interpreters/hash seeds: {agg['digests'][0]} vs {last['digest']}"))
            else:
                fresh_note = "1 scenario re-executed in a fresh interpreter with PYTHONHASHSEED=12345: same digest"
        finally:
            scratch.unlink(missing_ok=True)

    # triage violations
    rc = 0
    lines = []
    replay_dir = Path(os.environ.get("VERIF_REPLAY_DIR") or HOME / "replays")
    replay_dir.mkdir(exist_ok=True, parents=True)
    unlisted = 0
    n_unlisted = sum(1 for s in agg["violations"] if not match_known(known, pid, s))
    min_budget = (60 if tier == "quick" else 300) / max(1, n_unlisted)
    for s, info in sorted(agg["violations"].items()):
        e = match_known(known, pid, s)
        if e:
            lines.append(f"KNOWN-FINDING: property={pid} {e['what']} [{s}; {info['count']} runs]")
            continue
        unlisted += 1
        scn = info["scn"]
        if scn is None:   # should not happen: violating runs always return their scenario
            agg["harness"].append((info["first_run"], "violation without scenario"))
            continue
        small, tried = minimise(check, scn, s, min_budget)
        small = json.loads(json.dumps(small, default=_jsonable))
        small["expect"] = {"violation": s, "detail": info["v"]["detail"], "minimise_candidates_tried": tried,
                           "found_in_run": info["first_run"], "runs_with_this_signature": info["count"]}
        path = replay_dir / f"{pid}-{hashlib.sha1(s.encode()).hexdigest()[:10]}-{seed}.json"
        path.write_text(json.dumps(small, indent=1, default=_jsonable))
        code, last, txt = run_in_fresh_interpreter(pid, path)
        if last is None or s not in last["sigs"]:
            # the minimised scenario may only fail thanks to process-level state left behind by the candidates tried
            # before it (e.g. a class-level cache in the code under test): fall back to the scenario as it was found
            orig = json.loads(json.dumps(scn, default=_jsonable))
            orig["expect"] = {"violation": s, "detail": info["v"]["detail"], "minimised": False, "found_in_run": info["first_run"],
                              "runs_with_this_signature": info["count"],
                              "note": "the minimised scenario did not reproduce in a fresh interpreter; this is the scenario as found"}
            path.write_text(json.dumps(orig, indent=1, default=_jsonable))
            code, last, txt = run_in_fresh_interpreter(pid, path)
        if last is None or s not in last["sigs"]:
            agg["harness"].append((info["first_run"], f"violation {s} did not reproduce from {path} in a fresh interpreter: {txt[-1500:]}"))
            continue
        lines.append(f"  {s}: {info['v']['detail'][:300]}")
        lines.append(f"VIOLATION property={pid} replay={path}")
        rc = 1

    n_disc = sum(agg["discards"].values())
    wall = time.time() - t0
    evaluations = agg["n"]
    cov = {
        "evaluations": int(evaluations),
        "distinct_nontrivial": int(len(agg["keys"])),
        "rule": check.rule,
        "samples": agg["samples"] or ["(no sample: no run completed)"],
        "runs_per_hour": int(evaluations / max(explore_s, 1e-9) * 3600),
        "seeds": f"VERIF_SEED={seed}, run indices 0..{n_runs - 1} (derived per run by sha256(seed/property/index))",
        "fault_kinds_fired_and_probes": dict(sorted(agg["stats"].items())),
        "discarded_runs": dict(agg["discards"]),
        "determinism": {"pairs_re_executed_same_digest": audit_pairs, "fresh_interpreter": fresh_note},
        "violation_signatures": {s: i["count"] for s, i in agg["violations"].items()},
        "known_findings_met": [s for s in agg["violations"] if match_known(known, pid, s)],
        "engine": check.engine,
        "budget": cfg,
    }
    logical = {k: v for k, v in sorted(agg["stats"].items()) if k in (
        "batches", "calsim-batches", "scheduler_steps", "steps", "line_preemption_points", "crash-states", "trace-operations", "cases",
        "sample-calls", "cuttings-executed", "faulted-runs", "learn-steps", "policy-calls", "reward-observations", "calibrate-calls",
        "executions", "sessions", "pb:schedules", "ioerror@save", "restores-performed", "restores-compared")}
    cov["simulated_time"] = {"unit": "logical steps (black-it has no timers, time-outs or clocks that influence behaviour; the wall clock seam only "
                                     "feeds printed elapsed times and is jumped forwards/backwards in C01)", "covered": logical}
    cov.update(check.summary_extra(agg))
    evidence = {
        "property_id": pid, "tier": tier, "seed": int(seed), "level": check.level, "coverage": cov,
        "assumptions": list(check.assumptions), "wall_s": round(wall, 2), "violations": int(unlisted),
    }
    ev_dir = Path(os.environ.get("VERIF_EVIDENCE_DIR") or HOME / "evidence")
    ev_dir.mkdir(exist_ok=True, parents=True)
    (ev_dir / f"{pid}.json").write_text(json.dumps(evidence, indent=1, default=_jsonable) + "\n")

    for ln in lines:
        print(ln)
    print(f"{pid} {tier}: {evaluations} runs, {len(agg['keys'])} distinct non-trivial, {n_disc} discarded, "
          f"{len(agg['violations'])} violation signature(s), {wall:.1f}s")
    if agg["harness"]:
        for idx, msg in agg["harness"][:5]:
            print(f"HARNESS-ERROR run={idx}: {msg}", file=sys.stderr)
        return 2 if rc == 0 else rc
    if evaluations == 0 or n_disc > max(3, 0.05 * (evaluations + n_disc)):
        print(f"HARNESS-ERROR: too many discarded runs ({n_disc} of {evaluations + n_disc}): {dict(agg['discards'])}", file=sys.stderr)
        return 2 if rc == 0 else rc
    return rc
