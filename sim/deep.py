"""RefCheckpoint: generic deep, bitwise comparison of two object graphs (live vs restored).

Private attribute names are never required: state is walked generically.  Arrays are compared by
dtype/shape/bytes, generators by state, containers recursively, floats by bit pattern; threads,
locks, queues and opaque fitted third-party models are compared by type only (their behavioural
equivalence is C05's business).
"""
from __future__ import annotations

import types

import numpy as np

OPAQUE_MODULES = ("sklearn", "xgboost", "scipy", "gymnasium", "joblib", "h5py", "pandas")
TRANSIENT_TYPES = ("SimThread", "SimQueue", "SimLock", "SimEvent", "Thread", "Queue", "lock", "RLock", "Event", "Semaphore",
                   "Condition", "SimpleQueue")


def _tname(x):
    t = type(x)
    return f"{t.__module__}.{t.__qualname__}"


def deep_diff(a, b, path="", out=None, seen=None, limit=12):
    if out is None:
        out = []
    if seen is None:
        seen = {}          # (id, id) -> (a, b): the references keep temporaries alive so that ids are not recycled
    if len(out) >= limit:
        return out
    key = (id(a), id(b))
    if key in seen:
        return out
    if type(a).__name__ in TRANSIENT_TYPES or type(b).__name__ in TRANSIENT_TYPES:
        return out          # threads, locks, queues: transient by nature, whatever stands on the other side
    if isinstance(a, (np.generic,)) and not isinstance(a, np.ndarray):
        a = a.item()
    if isinstance(b, (np.generic,)) and not isinstance(b, np.ndarray):
        b = b.item()
    if a is None or b is None or isinstance(a, (bool, int, str, bytes)) or isinstance(b, (bool, int, str, bytes)):
        if type(a) is not type(b) or a != b:
            # bool vs int of the same value is a representation difference, not a state difference
            if not (isinstance(a, (bool, int)) and isinstance(b, (bool, int)) and int(a) == int(b)):
                ra = repr(a) if a is None or isinstance(a, (bool, int, str, bytes, float)) else f"<{_tname(a)}>"
                rb = repr(b) if b is None or isinstance(b, (bool, int, str, bytes, float)) else f"<{_tname(b)}>"
                out.append(f"{path}: {ra} != {rb}")
        return out
    if isinstance(a, float) or isinstance(b, float):
        if not (isinstance(a, float) and isinstance(b, float)):
            out.append(f"{path}: {a!r} ({type(a).__name__}) != {b!r} ({type(b).__name__})")
        elif np.float64(a).tobytes() != np.float64(b).tobytes() and not (a != a and b != b):
            out.append(f"{path}: {a!r} != {b!r}")
        return out
    if isinstance(a, np.ndarray) or isinstance(b, np.ndarray):
        if not (isinstance(a, np.ndarray) and isinstance(b, np.ndarray)):
            out.append(f"{path}: {type(a).__name__} vs {type(b).__name__}")
        elif a.dtype != b.dtype:
            out.append(f"{path}: dtype {a.dtype} vs {b.dtype}")
        elif a.shape != b.shape:
            out.append(f"{path}: shape {a.shape} vs {b.shape}")
        elif a.dtype == object:
            for i, (x, y) in enumerate(zip(a.ravel().tolist(), b.ravel().tolist())):
                deep_diff(x, y, f"{path}[{i}]", out, seen, limit)
        elif a.tobytes() != b.tobytes():
            if a.dtype.kind == "f":
                both_nan = np.isnan(a) & np.isnan(b)
                if both_nan.any() and a[~both_nan].tobytes() == b[~both_nan].tobytes():
                    return out          # NaN payload/sign is not observable state
            bad = np.argwhere(np.atleast_1d(a != b))
            where = bad[0].tolist() if len(bad) else "nan-payload"
            out.append(f"{path}: values differ, first at {where}: {np.atleast_1d(a)[tuple(bad[0])] if len(bad) else ''!r} vs "
                       f"{np.atleast_1d(b)[tuple(bad[0])] if len(bad) else ''!r}")
        return out
    seen[key] = (a, b)
    if isinstance(a, np.random.Generator) or isinstance(b, np.random.Generator):
        if not (isinstance(a, np.random.Generator) and isinstance(b, np.random.Generator)):
            out.append(f"{path}: generator vs {type(b).__name__}")
        else:
            deep_diff(a.bit_generator.state, b.bit_generator.state, path + ".state", out, seen, limit)
        return out
    ta, tb = _tname(a), _tname(b)
    if type(a).__name__ in TRANSIENT_TYPES or type(b).__name__ in TRANSIENT_TYPES:
        return out
    if ta != tb:
        out.append(f"{path}: type {ta} vs {tb}")
        return out
    if isinstance(a, dict):
        ka, kb = set(a), set(b)
        if ka != kb:
            out.append(f"{path}: keys differ: only live {sorted(map(str, ka - kb))[:5]}, only restored {sorted(map(str, kb - ka))[:5]}")
        for k in sorted(ka & kb, key=str):
            deep_diff(a[k], b[k], f"{path}[{k!r}]", out, seen, limit)
        return out
    if isinstance(a, (list, tuple)):
        if len(a) != len(b):
            out.append(f"{path}: length {len(a)} vs {len(b)}")
        for i, (x, y) in enumerate(zip(a, b)):
            deep_diff(x, y, f"{path}[{i}]", out, seen, limit)
        return out
    if isinstance(a, (set, frozenset)):
        if a != b:
            out.append(f"{path}: set differs")
        return out
    if isinstance(a, (types.FunctionType, types.BuiltinFunctionType, types.MethodType, type)):
        na = getattr(a, "__qualname__", repr(a))
        nb = getattr(b, "__qualname__", repr(b))
        if na != nb:
            out.append(f"{path}: callable {na} vs {nb}")
        return out
    if type(a).__module__.split(".")[0] in OPAQUE_MODULES:
        return out          # type already equal
    da = getattr(a, "__dict__", None)
    db = getattr(b, "__dict__", None)
    if da is not None and db is not None:
        deep_diff(dict(da), dict(db), path + "." if path else ".", out, seen, limit)
        return out
    try:
        if a != b:
            out.append(f"{path}: {a!r} != {b!r}")
    except Exception:  # noqa: BLE001
        pass
    return out


def calibrator_state(cal):
    """The observable state C04 speaks about, as a plain dict (no private attribute of Calibrator is required)."""
    return {
        "bounds": np.asarray(cal.param_grid.parameters_bounds), "precision": np.asarray(cal.param_grid.parameters_precision),
        "real_data": cal.real_data, "ensemble_size": cal.ensemble_size, "N": cal.N, "D": cal.D,
        "convergence_precision": cal.convergence_precision, "verbose": cal.verbose, "saving_folder": cal.saving_folder,
        "random_state": cal.random_state, "n_jobs": cal.n_jobs, "model_name": cal.model.__name__,
        "n_sampled_params": cal.n_sampled_params, "current_batch_index": cal.current_batch_index,
        "params_samp": cal.params_samp, "losses_samp": cal.losses_samp, "series_samp": cal.series_samp,
        "batch_num_samp": cal.batch_num_samp, "method_samp": cal.method_samp,
        "random_generator": cal.random_generator, "scheduler": cal.scheduler, "loss_function": cal.loss_function,
        # the table that gives the sampler labels their meaning (insertion order included)
        "samplers_id_table": list(cal.samplers_id_table.items()),
    }
