"""compsim: component-level simulation of one sampler object living through an operation sequence
(sample / append-history / restart = pickle round trip / reseed) against a synthetic, growing
history, with scripted peers.  No disk, no threads.  Serves C03, C12, C13, C16.
"""
from __future__ import annotations

import contextlib
import io
import pickle
import random
import warnings
from decimal import Decimal, getcontext
from fractions import Fraction

import numpy as np

from sim.calsim import gen_sampler_spec, gen_space, make_sampler
from sim.seams import Seams, import_all_black_it


def make_space(spec):
    from black_it.search_space import SearchSpace
    return SearchSpace(spec["bounds"], spec["precision"], verbose=False)


def grid_points(space, rng: np.random.Generator, n):
    pts = np.zeros((n, space.dims))
    for j, g in enumerate(space.param_grid):
        pts[:, j] = rng.choice(g, size=n)
    return pts


def gen_losses(rng: np.random.Generator, n, mode):
    """finite losses with ties; optional extreme values"""
    base = np.round(rng.random(n) * 5, 1)          # one decimal: ties are common
    if mode == "ties":
        return base
    if mode == "negpos":
        return base - 2.5
    if mode == "const":                              # a flat history: every loss exactly equal (zero variance)
        return np.full(n, base[0])
    if mode == "huge":
        x = base.copy()
        k = rng.integers(0, n, size=max(1, n // 4))
        x[k] = rng.choice([1e39, 3.5e38, 1e300, -1e39], size=len(k))
        return x
    if mode == "inf":
        x = base.copy()
        k = rng.integers(0, n, size=max(1, n // 5))
        x[k] = rng.choice([np.inf, -np.inf, 1e39], size=len(k))
        return x
    return rng.random(n)


def restart(obj):
    """What a checkpoint does to a sampler: pickle round trip."""
    return pickle.loads(pickle.dumps(obj))


@contextlib.contextmanager
def quiet():
    with contextlib.redirect_stdout(io.StringIO()), warnings.catch_warnings():
        warnings.simplefilter("ignore")
        yield


def pin_third_party(seams: Seams):
    import_all_black_it()
    from sklearn.ensemble import RandomForestClassifier

    def rf_one_thread(*a, **kw):
        kw["n_jobs"] = 1
        return RandomForestClassifier(*a, **kw)
    seams.replace_global("rf", RandomForestClassifier, rf_one_thread)


def out_of_bounds(spec, batch):
    """Independent of black-it's own grid: -> None or (row, col, value) outside the declared bounds (+-1e-7)."""
    lo, hi = np.asarray(spec["bounds"][0], dtype=float), np.asarray(spec["bounds"][1], dtype=float)
    for j in range(batch.shape[1]):
        bad = (batch[:, j] < lo[j] - 1e-7) | (batch[:, j] > hi[j] + 1e-7)
        if bad.any():
            i = int(np.argmax(bad))
            return i, j, batch[i, j]
    return None


def off_declared_grid(spec, batch):
    """Independent of black-it's own grid object: every coordinate must be lower + k*precision for an integer k >= 0 (the
    grid the user declared), up to rounding.  -> None or (row, col, value)."""
    lo = np.asarray(spec["bounds"][0], dtype=float)
    prec = np.asarray(spec["precision"], dtype=float)
    for j in range(batch.shape[1]):
        k = np.rint((batch[:, j] - lo[j]) / prec[j])
        ref = lo[j] + k * prec[j]
        tol = 1e-9 * max(abs(lo[j]), abs(prec[j]), 1e-300) + 1e-12 * np.abs(batch[:, j])
        bad = (np.abs(batch[:, j] - ref) > tol) | (k < 0)
        if bad.any():
            i = int(np.argmax(bad))
            return i, j, batch[i, j]
    return None


def on_grid(space, batch):
    """-> None if every coordinate is an exact grid element, else (row, col, value)."""
    for j in range(space.dims):
        bad = ~np.isin(batch[:, j], space.param_grid[j])
        if bad.any():
            i = int(np.argmax(bad))
            return i, j, batch[i, j]
    return None


def grid_index(space, batch):
    idx = np.zeros(batch.shape, dtype=int)
    for j, g in enumerate(space.param_grid):
        idx[:, j] = np.searchsorted(g, batch[:, j])
        idx[:, j] = np.clip(idx[:, j], 0, len(g) - 1)
    return idx


# ------------------------------------------------------------------------------------------
# reference sequences (independent of black-it)

def first_primes(n):
    out = []
    c = 2
    while len(out) < n:
        if all(c % p for p in out if p * p <= c):
            out.append(c)
        c += 1
    return out


def radical_inverse(k: int, base: int) -> float:
    f = Fraction(0)
    d = Fraction(1, base)
    while k > 0:
        k, r = divmod(k, base)
        f += r * d
        d /= base
    return float(f)


def invert_base2(u: float, bits=24):
    """index whose base-2 radical inverse is u (exact for dyadic u); None if u is not such a value"""
    t = 0
    x = u
    for i in range(bits):
        x *= 2
        d = int(x)
        x -= d
        t += d << i
        if x == 0.0:
            return t
    return None


_PHI_CACHE: dict = {}


def phi_d(d: int) -> Decimal:
    """root > 1 of x^(d+1) = x + 1, by Newton in 50-digit decimals (independent of compute_phi)"""
    if d in _PHI_CACHE:
        return _PHI_CACHE[d]
    getcontext().prec = 50
    x = Decimal(2)
    for _ in range(200):
        f = x ** (d + 1) - x - 1
        fp = (d + 1) * x ** d - 1
        nx = x - f / fp
        if abs(nx - x) < Decimal(10) ** -45:
            x = nx
            break
        x = nx
    _PHI_CACHE[d] = x
    return x


def rseq_alpha(d: int):
    p = phi_d(d)
    return np.array([float(1 / p ** (j + 1)) for j in range(d)])


def circ_dist(a, b):
    x = np.abs(a - b) % 1.0
    return np.minimum(x, 1.0 - x)
