"""Importable, picklable scripted peers: agents and samplers the simulator plays against black-it."""
from __future__ import annotations

import numpy as np

from black_it.loss_functions.base import BaseLoss
from black_it.samplers.base import BaseSampler
from black_it.samplers.surrogate import MLSurrogateSampler
from black_it.schedulers.rl.agents.base import Agent

# Recorders are module-level (peers may be pickled/unpickled mid-run; their records must survive)
RECORD: dict = {}


def reset_records():
    RECORD.clear()


class ScriptedAgent(Agent):
    """Agent whose policy follows a script (cyclically); records every policy/learn call."""

    def __init__(self, script, random_state=None):
        super().__init__(random_state=random_state)
        self.script = list(script)
        self.i = 0

    def policy(self, state):
        a = self.script[self.i % len(self.script)]
        self.i += 1
        return int(a)

    def learn(self, state, action, reward, next_state):
        pass


class ScriptedSampler(BaseSampler):
    """sample_batch answers from a script of points (collision generator of C12)."""

    def __init__(self, batch_size, script, max_deduplication_passes=5):
        super().__init__(batch_size, random_state=0, max_deduplication_passes=max_deduplication_passes)
        self.script = [np.asarray(p, dtype=float) for p in script]
        self.cursor = 0
        self.requests = []

    def sample_batch(self, batch_size, search_space, existing_points, existing_losses):
        self.requests.append(int(batch_size))
        out = []
        for _ in range(batch_size):
            out.append(self.script[self.cursor % len(self.script)])
            self.cursor += 1
        return np.array(out, dtype=float).reshape((batch_size, -1))


class StubSurrogate(MLSurrogateSampler):
    """Surrogate whose fit/predict are scripted: predictions come from a seeded table with ties,
    negatives and huge values; records exactly what it was given."""

    def __init__(self, batch_size, candidate_pool_size, pred_seed, pred_mode="ties", max_deduplication_passes=5,
                 random_state=None):
        super().__init__(batch_size, random_state, max_deduplication_passes, candidate_pool_size)
        self.pred_seed = pred_seed
        self.pred_mode = pred_mode
        self.calls = []

    def fit(self, X, y):  # noqa: N803
        self.calls.append(["fit", np.array(X, copy=True), np.array(y, copy=True), X is not None and id(X), id(y)])

    def predict(self, X):  # noqa: N803
        rng = np.random.default_rng(self.pred_seed + len(self.calls))
        n = len(X)
        if self.pred_mode == "ties":
            p = rng.integers(0, 4, size=n).astype(float)
        elif self.pred_mode == "huge":
            p = rng.choice([-1e300, -1.0, 0.0, 1e-300, 1e300], size=n)
        elif self.pred_mode == "inf":
            p = rng.choice([-np.inf, -np.inf, -1.0, 0.0, 2.5, np.inf], size=n)     # a surrogate that is "infinitely sure" about some candidates
        elif self.pred_mode == "neg":
            p = -rng.random(n)
        else:
            p = rng.normal(size=n)
        self.calls.append(["predict", np.array(X, copy=True), np.array(p, copy=True)])
        return p


class ReadOffLoss(BaseLoss):
    """A user-defined loss that reads the loss value off the simulated series (its mean): with the scripted model the
    loss sequence is the script itself, sign included (log-likelihood-type losses are negative in practice)."""

    def compute_loss_1d(self, sim_data_ensemble, real_data):
        return float(np.mean(sim_data_ensemble))


# coordinate filters of the loss functions (module-level: they are pickled with the loss in a checkpoint)
def filter_demean(x):
    return x - np.mean(x)


def filter_tanh(x):
    return np.tanh(x)


def filter_smooth(x):
    return np.convolve(x, np.ones(3) / 3.0, mode="same")


FILTERS = {"demean": filter_demean, "tanh": filter_tanh, "smooth": filter_smooth}
