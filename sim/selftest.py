"""Determinism self-test of the machinery (DESIGN 8.1): every check's scenarios are executed twice at
two worker counts and a sample again in fresh interpreters under other PYTHONHASHSEED values; the
event-log digests must agree.  `bin/check selftest [--tier quick|thorough]`; exit 0 / 2.
"""
from __future__ import annotations

import importlib
import json
import os
import sys
import time
from pathlib import Path

from sim import core

PROPS = ["C01", "C02", "C03", "C04", "C05", "C06", "C09", "C10", "C11", "C12", "C13", "C14", "C16", "C18", "C19"]


def main(tier: str) -> int:
    n_idx = 24 if tier == "quick" else 120
    n_fresh = 2 if tier == "quick" else 6
    seed = int(os.environ.get("VERIF_SEED", "0"))
    only = os.environ.get("VERIF_SELFTEST_PROPS")
    props = only.split(",") if only else PROPS
    bad = 0
    report = {}
    t0 = time.time()
    for pid in props:
        mod = importlib.import_module(f"sim.props.{pid.lower()}")
        check = mod.CHECK
        core._CHECK = check
        core.preload()
        n = n_idx if pid not in ("C05", "C06", "C11") else max(6, n_idx // 4)
        digests = {}
        mism = []
        for jobs in (16, 3):
            got = {}

            def on_result(idx, kind, payload, got=got):
                if kind == "done":
                    got[idx] = payload["digest"]
                else:
                    got[idx] = f"<{kind}>"
            pool = core.Pool(core._pool_entry, jobs, 600)
            try:
                pool.run(((i, (seed, i, "quick", "plain")) for i in range(n)), on_result=on_result)
            finally:
                pool.close()
            for i, d in got.items():
                if i in digests and digests[i] != d:
                    mism.append((i, digests[i], d, f"jobs={jobs}"))
                digests.setdefault(i, d)
        fresh_ok = 0
        for j, hs in zip(range(n_fresh), ("1", "987654", "31337", "42", "7", "123456789")):
            rng = core.derive_rng(seed, pid, j)
            scn = check.gen(rng, "quick", j)
            scn.setdefault("property", pid)
            scn["verif_seed"] = seed
            scn["run_index"] = j
            path = Path(os.environ.get("TMPDIR", "/tmp")) / f"verif-selftest-{pid}-{j}-{os.getpid()}.json"
            path.write_text(json.dumps(scn, default=core._jsonable))
            try:
                rc, last, txt = core.run_in_fresh_interpreter(pid, path, hashseed=hs, timeout=600)
            finally:
                path.unlink(missing_ok=True)
            if last is None or last["digest"] != digests.get(j):
                mism.append((j, digests.get(j), last and last["digest"], f"fresh interpreter PYTHONHASHSEED={hs}"))
            else:
                fresh_ok += 1
        report[pid] = {"indices": n, "executions": 2 * n + n_fresh, "fresh_interpreters_ok": fresh_ok, "mismatches": mism}
        status = "ok" if not mism else "NONDETERMINISTIC"
        print(f"selftest {pid}: {n} scenarios x 2 worker counts + {n_fresh} fresh interpreters: {status}", flush=True)
        for m in mism[:3]:
            print(f"  HARNESS-ERROR run {m[0]}: {m[1]} vs {m[2]} ({m[3]})", file=sys.stderr)
        bad += len(mism)
    out = core.HOME / "evidence" / "selftest.json"
    out.write_text(json.dumps({"tier": tier, "seed": seed, "wall_s": round(time.time() - t0, 1), "report": report}, indent=1, default=str) + "\n")
    return 0 if bad == 0 else 2
