"""diskcrash: crash-state materialisation for checkpoint saves (seams S3-S6 of DESIGN.md).

JSON/CSV/HDF5 back-end: one real save is recorded - the order in which files are opened for
writing (open() wrapper), the final content of the sequentially written files, and every
(offset, bytes)/truncate the real HDF5 library issues (h5py file-object driver behind a recording
proxy).  Crash states are then materialised from the previous folder contents: after every
operation and inside every write at byte granularity.  Nothing is thrown through C code.

SQLite back-end: a proxy sqlite3 module raises before the k-th call (connect, cursor, execute,
executescript, adapters, commit, close) or the process (a forked child) dies after it.
"""
from __future__ import annotations

import builtins
import io
import os
import shutil
from pathlib import Path

import numpy as np

from sim.seams import Seams

FILES = ("calibration_params.json", "scheduler_pickled.pickle", "loss_function_pickled.pickle", "calibration_results.csv", "series_samp.h5")


class _H5Proxy:
    def __init__(self, f, name, trace):
        self._f = f
        self._name = name
        self._trace = trace

    def write(self, b):
        pos = self._f.tell()
        self._trace.append(("write", self._name, pos, bytes(b)))
        return self._f.write(b)

    def truncate(self, size=None):
        self._trace.append(("truncate", self._name, self._f.tell() if size is None else size))
        return self._f.truncate(size)

    def __getattr__(self, n):
        return getattr(self._f, n)


class Recorder:
    """Records one save into `folder`.  Use as a context manager around the save call."""

    def __init__(self, folder):
        self.folder = str(Path(folder).resolve())
        self.trace = []          # ("open_w", name) | ("write", name, offset, bytes) | ("truncate", name, size)
        self.opened = []
        self.seams = Seams()

    def __enter__(self):
        import h5py

        import black_it.utils.json_pandas_checkpointing as jp
        real_open = builtins.open
        rec = self

        def open_logger(file, mode="r", *a, **kw):
            try:
                p = str(Path(os.fspath(file)).resolve()) if not isinstance(file, int) else None
            except TypeError:
                p = None
            if p is not None and p.startswith(rec.folder + os.sep) and any(c in mode for c in "wax+"):
                name = os.path.basename(p)
                if "w" in mode:
                    rec.snapshot_previous()
                    rec.trace.append(["open_w", name, None])
                    rec.opened.append(name)
            return real_open(file, mode, *a, **kw)
        self.seams.set_attr(builtins, "open", open_logger)
        self.seams.set_attr(io, "open", open_logger)

        class H5Shim:
            """stands for the h5py module inside json_pandas_checkpointing"""

            def __getattr__(self2, n):
                return getattr(h5py, n)

            def File(self2, name, mode="r", **kw):  # noqa: N802
                p = str(Path(os.fspath(name)).resolve())
                if mode == "r" or not p.startswith(rec.folder + os.sep):
                    return h5py.File(name, mode=mode, **kw)
                base = os.path.basename(p)
                rec.snapshot_previous()
                if mode == "w" or not os.path.exists(p):
                    rec.trace.append(["open_w", base, None])
                    rec.opened.append(base)
                    f = real_open(p, "w+b")
                else:
                    rec.opened.append(base)
                    f = real_open(p, "r+b")
                proxy = _H5Proxy(f, base, rec.trace)
                h = h5py.File(proxy, mode=mode if mode != "a" else "a", **kw)
                real_close = h.close

                def close():
                    real_close()
                    f.close()
                h.close = close
                rec._h5 = (h, f)
                return h
        self.seams.replace_global("h5py", h5py, H5Shim())
        return self

    def __exit__(self, *exc):
        self.seams.undo()
        h5 = getattr(self, "_h5", None)
        if h5 is not None:
            try:
                h5[1].close()
            except Exception:  # noqa: BLE001
                pass
        return False

    def snapshot_previous(self):
        """A sequentially written file is complete when the next file is opened: remember what that open wrote
        (the same file may be written more than once during one save)."""
        for ev in reversed(self.trace):
            if ev[0] == "open_w":
                if ev[2] is None and ev[1] != "series_samp.h5":
                    try:
                        ev[2] = Path(self.folder, ev[1]).read_bytes()
                    except OSError:
                        ev[2] = b""
                break

    def finish(self):
        """Turn the recording into the operation list: every open of a sequential file becomes one truncate + one
        write of the content that open produced."""
        self.snapshot_previous()
        ops = []
        for ev in self.trace:
            if ev[0] == "open_w":
                name = ev[1]
                ops.append(("trunc", name))
                if name != "series_samp.h5":
                    ops.append(("write", name, 0, ev[2] if ev[2] is not None else Path(self.folder, name).read_bytes()))
            elif ev[0] == "write":
                ops.append(("write", ev[1], ev[2], ev[3]))
            elif ev[0] == "truncate":
                ops.append(("truncate", ev[1], ev[2]))
        return ops


def read_folder(folder):
    out = {}
    for name in os.listdir(folder):
        p = Path(folder, name)
        if p.is_file():
            out[name] = p.read_bytes()
    return out


def apply_op(state: dict, op, upto=None):
    """apply one operation (or the first `upto` bytes of a write) to a {name: bytes} state, in place"""
    kind, name = op[0], op[1]
    if kind == "trunc":
        state[name] = b""
    elif kind == "truncate":
        cur = state.get(name, b"")
        size = op[2]
        state[name] = cur[:size] if len(cur) >= size else cur + b"\0" * (size - len(cur))
    elif kind == "write":
        off, data = op[2], op[3]
        if upto is not None:
            data = data[:upto]
        cur = state.get(name, b"")
        if len(cur) < off:
            cur = cur + b"\0" * (off - len(cur))
        state[name] = cur[:off] + data + cur[off + len(data):]
    return state


def crash_states(old: dict, ops, byte_step):
    """yield (label, state) for every crash point: after each op and inside each write.
    label = (op index, file, kind, bytes written of the op or None)"""
    state = dict(old)
    yield (0, "-", "before-save", None), dict(state)
    for i, op in enumerate(ops):
        if op[0] == "write":
            n = len(op[3])
            cuts = set(range(1, n, byte_step)) | {1, n - 1} if n > 1 else set()
            for k in sorted(c for c in cuts if 0 < c < n):
                s = dict(state)
                apply_op(s, op, upto=k)
                yield (i, op[1], "torn-write", k), s
        apply_op(state, op)
        yield (i, op[1], op[0], None), dict(state)


def materialise(state: dict, folder):
    if os.path.exists(folder):
        shutil.rmtree(folder)
    os.makedirs(folder)
    for name, data in state.items():
        Path(folder, name).write_bytes(data)


# --------------------------------------------------------------------------------------------
# SQLite fault proxy

class SqliteFault(Exception):
    pass


class SqliteProxy:
    """stands for the sqlite3 module inside sqlite3_checkpointing; counts calls, raises before / exits after the k-th"""

    def __init__(self, real, mode=None, at=None):
        self._real = real
        self.mode = mode      # None | "raise" | "kill"
        self.at = at
        self.n = 0
        self.calls = []

    def _point(self, what):
        k = self.n
        self.n += 1
        self.calls.append(what)
        if self.mode == "raise" and k == self.at:
            raise SqliteFault(f"injected before call {k} ({what})")
        return k

    def _after(self, k):
        if self.mode == "kill" and k == self.at:
            os._exit(77)

    def __getattr__(self, n):
        return getattr(self._real, n)

    def connect(self, *a, **kw):
        k = self._point("connect")
        conn = self._real.connect(*a, **kw)
        self._after(k)
        return _ConnProxy(self, conn)


class _ConnProxy:
    def __init__(self, px, conn):
        self._px = px
        self._c = conn

    def cursor(self):
        k = self._px._point("cursor")
        cur = self._c.cursor()
        self._px._after(k)
        return _CurProxy(self._px, cur)

    def commit(self):
        k = self._px._point("commit")
        r = self._c.commit()
        self._px._after(k)
        return r

    def rollback(self):
        return self._c.rollback()

    def close(self):
        k = self._px._point("close")
        r = self._c.close()
        self._px._after(k)
        return r

    def __getattr__(self, n):
        return getattr(self._c, n)


class _CurProxy:
    def __init__(self, px, cur):
        self._px = px
        self._cur = cur

    def execute(self, sql, *a):
        k = self._px._point("execute:" + " ".join(sql.split())[:24])
        r = self._cur.execute(sql, *a)
        self._px._after(k)
        return r

    def executescript(self, sql):
        k = self._px._point("executescript")
        r = self._cur.executescript(sql)
        self._px._after(k)
        return r

    def __getattr__(self, n):
        return getattr(self._cur, n)


# --------------------------------------------------------------------------------------------
# ioerror@save: an OSError raised from the k-th operation of a *live* save (the process survives)

import errno  # noqa: E402


class Injector:
    def __init__(self, fail_at=None):
        self.fail_at = fail_at
        self.n = 0
        self.labels = []
        self.fired = None

    def point(self, label):
        k = self.n
        self.n += 1
        self.labels.append(label)
        if self.fail_at is not None and k == self.fail_at:
            self.fired = label
            raise OSError(errno.ENOSPC, f"No space left on device (injected at {label})")


class _SeqFileProxy:
    """wraps a file opened for writing in the checkpoint folder; every write and the close are fault points"""

    def __init__(self, f, name, inj):
        self._f = f
        self._name = name
        self._inj = inj
        self._nw = 0
        self._closed = False

    def write(self, data):
        self._inj.point(f"write:{self._name}" if self._nw == 0 else f"write-more:{self._name}")
        self._nw += 1
        return self._f.write(data)

    def close(self):
        if not self._closed:
            self._closed = True
            self._f.close()
            self._inj.point(f"close:{self._name}")

    def __enter__(self):
        return self

    def __exit__(self, *a):
        self.close()
        return False

    def __iter__(self):
        return iter(self._f)

    def __getattr__(self, n):
        return getattr(self._f, n)


class _DatasetProxy:
    def __init__(self, ds, inj):
        self._ds = ds
        self._inj = inj

    @property
    def shape(self):
        return self._ds.shape

    def resize(self, *a, **kw):
        self._inj.point("h5:resize:before")
        r = self._ds.resize(*a, **kw)
        self._inj.point("h5:resize:after")
        return r

    def __setitem__(self, k, v):
        self._inj.point("h5:setitem:before")
        self._ds[k] = v
        self._inj.point("h5:setitem:after")

    def __getitem__(self, k):
        return self._ds[k]

    def __getattr__(self, n):
        return getattr(self._ds, n)


class _H5FileProxy:
    def __init__(self, h, inj):
        self._h = h
        self._inj = inj

    def __enter__(self):
        return self

    def __exit__(self, *a):
        self._h.close()
        if a[0] is None:
            self._inj.point("h5:close")
        return False

    def close(self):
        self._h.close()

    def __getitem__(self, k):
        return _DatasetProxy(self._h[k], self._inj)

    def create_dataset(self, *a, **kw):
        self._inj.point("h5:create:before")
        d = self._h.create_dataset(*a, **kw)
        self._inj.point("h5:create:after")
        return _DatasetProxy(d, self._inj)

    def __getattr__(self, n):
        return getattr(self._h, n)


class FaultySave:
    """context manager: inside it, writes into `folder` go through fault points of `inj`"""

    def __init__(self, folder, inj: Injector):
        self.folder = str(Path(folder).resolve())
        self.inj = inj
        self.seams = Seams()

    def __enter__(self):
        import h5py
        real_open = builtins.open
        me = self

        def faulty_open(file, mode="r", *a, **kw):
            try:
                p = str(Path(os.fspath(file)).resolve()) if not isinstance(file, int) else None
            except TypeError:
                p = None
            if p is not None and p.startswith(me.folder + os.sep) and any(c in mode for c in "wax+"):
                name = os.path.basename(p)
                me.inj.point(f"open:{name}")
                return _SeqFileProxy(real_open(file, mode, *a, **kw), name, me.inj)
            return real_open(file, mode, *a, **kw)
        self.seams.set_attr(builtins, "open", faulty_open)
        self.seams.set_attr(io, "open", faulty_open)

        class H5Shim:
            def __getattr__(self2, n):
                return getattr(h5py, n)

            def File(self2, name, mode="r", **kw):  # noqa: N802
                p = str(Path(os.fspath(name)).resolve())
                if mode == "r" or not p.startswith(me.folder + os.sep):
                    return h5py.File(name, mode=mode, **kw)
                me.inj.point(f"h5:open:{mode}")
                return _H5FileProxy(h5py.File(name, mode=mode, **kw), me.inj)
        self.seams.replace_global("h5py", h5py, H5Shim())
        return self

    def __exit__(self, *exc):
        self.seams.undo()
        return False
