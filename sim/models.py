"""Harness models (seam S7): picklable, named, deterministic functions of (theta, N, seed).

Outputs are unique per seed so that an ensemble/row mix-up in the calibrator is visible.
"""
from __future__ import annotations

import numpy as np

# state of the scripted model; SimParallel runs every task in the parent process, so a module-level
# cursor is shared by "isolated" copies too (isolation is by pickling, not by a separate process)
SCRIPT = {"values": None, "i": 0, "per": 1}
# pre-emption hook of the simulator (set by CalSim): a model that takes a while can be interleaved with its siblings when
# the worker pool shares one interpreter
YIELD = {"fn": None}


def reset_script(values=None, per=1):
    SCRIPT["values"] = list(values) if values is not None else None
    SCRIPT["i"] = 0
    SCRIPT["per"] = per


class HarnessModel:
    def __init__(self, kind: str, D: int, extreme: float = 0.0, mutates: bool = False, scale: float = 1.0):  # noqa: N803
        self.scale = scale              # e.g. 1e-9: series far below any absolute comparison tolerance
        self.kind = kind
        self.D = D
        self.extreme = extreme
        self.mutates = mutates          # an ill-behaved user model that scribbles over the array it is given
        self.__name__ = f"{kind}_d{D}"

    def __call__(self, theta, N, seed):  # noqa: N803
        rng = np.random.default_rng(seed)
        th = np.asarray(theta, dtype=float)
        D = self.D  # noqa: N806
        if self.kind == "gauss":
            x = rng.normal(th[0], 0.3 + abs(th[-1]) * 0.1, size=(N, D))
        elif self.kind == "ar1":
            rho = np.tanh(th[0])
            e = rng.normal(0.0, 1.0, size=(N, D))
            x = np.zeros((N, D))
            x[0] = e[0]
            for t in range(1, N):
                x[t] = rho * x[t - 1] + e[t]
            x = x + th[-1]
        elif self.kind == "mix":
            x = rng.normal(0.0, 1.0, size=(N, D)) * (0.5 + np.abs(th).sum()) + np.sin(th).sum()
        elif self.kind == "globalrng":
            # the idiom of the library's example notebooks: seed numpy's global generator, then draw from it.  A pure
            # function of (theta, N, seed) as long as every simulation has the interpreter to itself.
            np.random.seed(int(seed) % (2 ** 32))  # noqa: NPY002
            if YIELD["fn"] is not None:
                YIELD["fn"]()                      # "set-up work" between seeding and drawing
            x = np.random.normal(th[0], 0.5, size=(N, D)) + np.random.random() * th[-1]  # noqa: NPY002
        elif self.kind == "scripted":
            vals = SCRIPT["values"]
            i = SCRIPT["i"] // SCRIPT["per"]
            SCRIPT["i"] += 1
            v = vals[min(i, len(vals) - 1)]
            x = np.full((N, D), float(v))
        else:
            raise ValueError(self.kind)
        if getattr(self, "scale", 1.0) != 1.0:
            x = x * self.scale
        if getattr(self, "mutates", False) and isinstance(theta, np.ndarray) and theta.flags.writeable:
            theta += 1.0
        if self.extreme > 0.0:
            u = rng.random()
            if u < self.extreme:
                # extreme@model: values that stress text round trips and float32 surrogates
                pick = rng.integers(0, 6)
                val = [np.inf, 1e308, 1e39, 5e-324, 0.1 + 0.2, -1e39][pick]
                x = x.copy()
                x[rng.integers(0, N), rng.integers(0, D)] = val
        return x

    def __eq__(self, other):
        return isinstance(other, HarnessModel) and vars(self) == vars(other)

    def __hash__(self):
        return hash((self.kind, self.D, self.extreme, getattr(self, 'mutates', False)))


def real_data_for(kind: str, D: int, N: int, seed: int):  # noqa: N803
    if kind == "scripted":
        return np.zeros((N, D))
    rng = np.random.default_rng(seed)
    return rng.normal(0.3, 1.0, size=(N, D))
