"""Baton scheduler (seam S2): real threads, exactly one of which runs at any time.

Every blocking operation (queue get, join, lock acquire, event wait), every put/start/exit and,
when line tracing is on, every line executed inside the traced black-it files is a *pre-emption
point* where the seeded chooser decides who runs next.  "Deadlock" = no runnable thread.
The objects below replace `threading` and `queue.Queue` in the black-it module namespaces for the
duration of a run; black-it's own code is the code that runs on the threads.
"""
from __future__ import annotations

import os
import queue as _real_queue
import random
import sys
import threading as _rt


class Deadlock(BaseException):
    pass


class SimAbort(BaseException):
    """Raised inside simulated threads to unwind them when a run is torn down."""


class StepLimit(BaseException):
    pass


class _T:
    __slots__ = ("name", "sem", "alive", "pred", "timed", "real", "ident", "prio", "exc", "done")

    def __init__(self, name):
        self.name = name
        self.sem = _rt.Semaphore(0)
        self.alive = False
        self.done = False
        self.pred = None      # blocking predicate, None = not blocked
        self.timed = False    # blocked with a timeout: may be woken with pred false
        self.real = None
        self.ident = None
        self.prio = 0.0
        self.exc = None


class Baton:
    def __init__(self, sched: dict, max_steps: int = 200_000):
        self.sched = dict(sched or {})
        self.mode = self.sched.get("mode", "random")
        self.rng = random.Random(self.sched.get("seed", 0))
        self.p_line = float(self.sched.get("p_line", 0.15))
        self.max_steps = max_steps
        self.steps = 0
        self.line_points = 0
        self.switches = 0
        self.decisions = 0
        self.main = _T("main")
        self.main.alive = True
        self.main.ident = _rt.get_ident()
        self.main.prio = self.rng.random()
        self.threads: list[_T] = [self.main]
        self.current = self.main
        self.aborting = False
        self.abort_reason = None
        self.sync_trace: list = []
        self.thread_excs: list = []
        self._n_created = 0
        self._trace_pred = None
        self._old_trace = None
        # PCT: a few pre-drawn step numbers at which the running thread's priority drops
        depth = int(self.sched.get("pct_depth", 2))
        horizon = int(self.sched.get("pct_horizon", 300))
        self._preempt_at = set(self.sched.get("preempt_at", ()))
        self.preempted = []
        self._pct_points = sorted(self.rng.randrange(1, horizon) for _ in range(depth)) if self.mode == "pct" else []

    # ---------------------------------------------------------------- scheduling core
    def _runnable(self):
        out = []
        for t in self.threads:
            if not t.alive:
                continue
            if t.pred is None or t.timed:
                out.append(t)
            else:
                try:
                    ok = t.pred()
                except Exception:  # noqa: BLE001
                    ok = True
                if ok:
                    out.append(t)
        return out

    def _choose(self, runnable, me, line: bool):
        if len(runnable) == 1:
            return runnable[0]
        self.decisions += 1
        mode = self.mode
        me_ok = me in runnable
        if mode == "random":
            if line and me_ok:
                if self.rng.random() >= self.p_line:
                    return me
                others = [t for t in runnable if t is not me]
                return self.rng.choice(others)
            return self.rng.choice(runnable)
        if mode == "pct":
            if self._pct_points and self.steps >= self._pct_points[0]:
                self._pct_points.pop(0)
                if me_ok:
                    me.prio = min(t.prio for t in self.threads) - 1.0
            return max(runnable, key=lambda t: t.prio)
        if mode == "mainfirst":      # others run only when main cannot
            return self.main if self.main in runnable else runnable[0]
        if mode == "othersfirst":    # any other thread runs whenever it can
            others = [t for t in runnable if t is not self.main]
            return others[0] if others else self.main
        if mode == "stay":           # never pre-empt voluntarily
            return me if me_ok else runnable[0]
        if mode == "pb":             # preemption-bounded: run on unless this decision point is in the list
            d = self.decisions - 1
            if me_ok and d not in self._preempt_at:
                return me
            others = [t for t in runnable if t is not me]
            if me_ok:
                self.preempted.append(d)
            return others[0] if others else me
        raise ValueError(mode)

    def yield_point(self, tag, pred=None, timed=False, line=False):
        """Called by the thread holding the baton.  Returns when this thread is chosen again.
        Returns False if woken by 'timeout' with the predicate still false."""
        me = self.current
        if _rt.get_ident() != me.ident:
            # a thread we do not control reached a seam: let it through untouched
            return True
        if self.aborting:
            raise (SimAbort() if me is not self.main else Deadlock(self.abort_reason))
        self.steps += 1
        if line:
            self.line_points += 1
        else:
            self.sync_trace.append((me.name, tag))
        if self.steps > self.max_steps:
            self._abort("step-limit")
            raise StepLimit()
        me.pred = pred
        me.timed = timed
        runnable = self._runnable()
        if not runnable:
            self._abort(f"deadlock at {me.name}:{tag}")
            raise (Deadlock(self.abort_reason) if me is self.main else SimAbort())
        nxt = self._choose(runnable, me, line)
        if nxt is not me:
            self.switches += 1
            self.current = nxt
            nxt.sem.release()
            me.sem.acquire()
            if self.aborting:
                raise (SimAbort() if me is not self.main else Deadlock(self.abort_reason))
        ok = True
        if pred is not None:
            try:
                ok = bool(pred())
            except Exception:  # noqa: BLE001
                ok = True
        me.pred = None
        me.timed = False
        return ok

    def _abort(self, reason):
        if not self.aborting:
            self.aborting = True
            self.abort_reason = reason

    def _thread_exit(self, me: _T):
        me.alive = False
        me.done = True
        if self.aborting:
            # make sure main gets to see the abort
            if self.current is me and self.main.alive:
                self.current = self.main
                self.main.sem.release()
            return
        self.sync_trace.append((me.name, "exit"))
        runnable = self._runnable()
        if not runnable:
            self._abort(f"deadlock after exit of {me.name}")
            self.current = self.main
            self.main.sem.release()
            return
        nxt = self._choose(runnable, me, False)
        self.current = nxt
        nxt.sem.release()

    # ---------------------------------------------------------------- life cycle
    def live_sim_threads(self):
        return [t.name for t in self.threads if t is not self.main and t.alive]

    def shutdown(self):
        """Tear down: unwind every simulated thread still alive."""
        self.uninstall_tracing()
        self._abort(self.abort_reason or "shutdown")
        for t in self.threads:
            if t is not self.main and t.alive:
                t.sem.release()
        for t in self.threads:
            if t is not self.main and t.real is not None:
                t.real.join(2.0)

    # ---------------------------------------------------------------- tracing (line-level pre-emption)
    def install_tracing(self, path_pred):
        self._trace_pred = path_pred
        self._old_trace = sys.gettrace()
        sys.settrace(self._tracer)

    def uninstall_tracing(self):
        if self._trace_pred is not None:
            sys.settrace(self._old_trace)
            self._trace_pred = None

    def _tracer(self, frame, event, arg):
        if event == "call" and self._trace_pred is not None and self._trace_pred(frame.f_code.co_filename):
            return self._local
        return None

    def _local(self, frame, event, arg):
        if event == "line" and not self.aborting and len(self.threads) > 1:
            self.yield_point(("line", os.path.basename(frame.f_code.co_filename), frame.f_lineno), line=True)
        return self._local

    # ---------------------------------------------------------------- factories handed to black-it
    def new_thread_name(self):
        self._n_created += 1
        return f"T{self._n_created}"


class SimThread:
    def __init__(self, baton: Baton, group=None, target=None, name=None, args=(), kwargs=None, daemon=None):
        self._b = baton
        self._target = target
        self._args = args
        self._kwargs = kwargs or {}
        self.name = baton.new_thread_name()     # creation order, never 'Thread-N'
        self.daemon = True if daemon is None else daemon
        self._t = _T(self.name)
        self._started = False

    def start(self):
        if self._started:
            raise RuntimeError("threads can only be started once")
        self._started = True
        b = self._b
        t = self._t
        t.alive = True
        t.prio = b.rng.random()
        b.threads.append(t)

        def boot():
            t.ident = _rt.get_ident()
            t.sem.acquire()
            try:
                if b.aborting:
                    return
                if b._trace_pred is not None:
                    sys.settrace(b._tracer)
                try:
                    if self._target is not None:
                        self._target(*self._args, **self._kwargs)
                except SimAbort:
                    pass
                except BaseException as e:  # noqa: BLE001
                    t.exc = e
                    b.thread_excs.append((t.name, type(e).__name__, str(e)[:300]))
            finally:
                sys.settrace(None)
                b._thread_exit(t)

        t.real = _rt.Thread(target=boot, name=self.name, daemon=True)
        t.real.start()
        b.yield_point("start:" + self.name)

    def run(self):
        if self._target is not None:
            self._target(*self._args, **self._kwargs)

    def join(self, timeout=None):
        t = self._t
        if not self._started:
            raise RuntimeError("cannot join thread before it is started")
        while not t.done:
            ok = self._b.yield_point("join:" + self.name, pred=lambda: t.done, timed=timeout is not None)
            if not ok and timeout is not None:
                return

    def is_alive(self):
        return self._t.alive

    @property
    def ident(self):
        return self._t.ident

    def __reduce__(self):
        raise TypeError("cannot pickle 'SimThread' object (stands for _thread.lock)")


class SimQueue:
    """FIFO with the interface of queue.Queue that black-it uses; every message gets a sequence number."""

    _seq = 0

    def __init__(self, baton: Baton, maxsize=0, name=None, log=None):
        self._b = baton
        self._items: list = []
        self.name = name or f"Q{id(self) % 1000}"
        self.log = log
        self.maxsize = maxsize

    def put(self, item, block=True, timeout=None):
        b = self._b
        b.yield_point(f"put<{self.name}", )
        b.msg_seq = getattr(b, "msg_seq", 0) + 1
        self._items.append((b.msg_seq, item))
        if self.log is not None:
            self.log(("put", self.name, b.msg_seq, b.current.name, item))
        b.yield_point(f"put>{self.name}")

    def put_nowait(self, item):
        self.put(item, block=False)

    def get(self, block=True, timeout=None):
        b = self._b
        if not block:
            b.yield_point(f"get_nowait:{self.name}")
            if not self._items:
                raise _real_queue.Empty
        else:
            while True:
                ok = b.yield_point(f"get:{self.name}", pred=lambda: bool(self._items), timed=timeout is not None)
                if self._items:
                    break
                if not ok and timeout is not None:
                    raise _real_queue.Empty
        seq, item = self._items.pop(0)
        if self.log is not None:
            self.log(("get", self.name, seq, b.current.name, item))
        return item

    def get_nowait(self):
        return self.get(block=False)

    def empty(self):
        self._b.yield_point(f"empty:{self.name}")
        return not self._items

    def qsize(self):
        self._b.yield_point(f"qsize:{self.name}")
        return len(self._items)

    def full(self):
        return False

    def task_done(self):
        pass

    def join(self):
        pass

    # harness-side inspection (no pre-emption)
    def peek_all(self):
        return [it for _, it in self._items]

    def __reduce__(self):
        raise TypeError("cannot pickle 'SimQueue' object (stands for _thread.lock)")


class SimLock:
    def __init__(self, baton: Baton, reentrant=False):
        self._b = baton
        self._owner = None
        self._count = 0
        self._re = reentrant

    def acquire(self, blocking=True, timeout=-1):
        b = self._b
        me = b.current
        if self._re and self._owner is me:
            self._count += 1
            return True
        if not blocking:
            b.yield_point("lock-try")
            if self._owner is None:
                self._owner, self._count = me, 1
                return True
            return False
        timed = timeout is not None and timeout >= 0
        while True:
            ok = b.yield_point("lock", pred=lambda: self._owner is None, timed=timed)
            if self._owner is None:
                self._owner, self._count = b.current, 1
                return True
            if not ok and timed:
                return False

    def release(self):
        self._count -= 1
        if self._count <= 0:
            self._owner = None
            self._count = 0
        self._b.yield_point("unlock")

    def locked(self):
        return self._owner is not None

    __enter__ = acquire

    def __exit__(self, *a):
        self.release()

    def __reduce__(self):
        raise TypeError("cannot pickle 'SimLock' object (stands for _thread.lock)")


class SimEvent:
    def __init__(self, baton: Baton):
        self._b = baton
        self._flag = False

    def is_set(self):
        self._b.yield_point("event-read")
        return self._flag

    def set(self):
        self._b.yield_point("event-set")
        self._flag = True

    def clear(self):
        self._b.yield_point("event-clear")
        self._flag = False

    def wait(self, timeout=None):
        while not self._flag:
            ok = self._b.yield_point("event-wait", pred=lambda: self._flag, timed=timeout is not None)
            if not ok and timeout is not None:
                break
        return self._flag

    def __reduce__(self):
        raise TypeError("cannot pickle 'SimEvent' object (stands for _thread.lock)")


class ThreadingShim:
    """Stands in for the `threading` module inside black-it's namespaces."""

    def __init__(self, baton: Baton):
        self._b = baton
        b = baton

        class Thread(SimThread):
            def __init__(self, group=None, target=None, name=None, args=(), kwargs=None, *, daemon=None):
                SimThread.__init__(self, b, group, target, name, args, kwargs, daemon)

        self.Thread = Thread
        self.Lock = lambda: SimLock(b)
        self.RLock = lambda: SimLock(b, reentrant=True)
        self.Event = lambda: SimEvent(b)
        self.get_ident = _rt.get_ident
        self.current_thread = _rt.current_thread
        self.main_thread = _rt.main_thread
        self.TIMEOUT_MAX = _rt.TIMEOUT_MAX

    def __getattr__(self, name):
        # anything else black-it might start using falls back to the real module (and is then outside
        # the simulator's control: the run's determinism audit would show it)
        return getattr(_rt, name)


class QueueModuleShim:
    def __init__(self, baton: Baton, log=None):
        self._b = baton
        self._log = log
        self._n = 0
        self.Empty = _real_queue.Empty
        self.Full = _real_queue.Full

    def Queue(self, maxsize=0):  # noqa: N802
        self._n += 1
        return SimQueue(self._b, maxsize, name=f"q{self._n}", log=self._log)

    SimpleQueue = Queue
    LifoQueue = Queue
