"""C12 - deduplication replaces only repeated points and gives up only after its passes.

Peer: a scripted generator (collision@generator fault kind) answering sample_batch from a script
that contains fresh points, repeats of the history, repeats within the batch and repeats of
earlier redraws.  Oracle: RefDedup, written from the statement.
"""
from __future__ import annotations

import copy
import random

import numpy as np

from sim.compsim import make_space, quiet
from sim.core import Check, Result, jdigest
from sim.peers import ScriptedSampler

SPACE = {"bounds": [[0.0] * 3, [9.0] * 3], "precision": [1.0] * 3}


def ref_dedup(history, script, B, budget, cur=0):  # noqa: N803
    """-> (request sizes, final multiset as sorted list of tuples, exhausted?, script cursor afterwards)"""

    def draw(n):
        nonlocal cur
        out = [tuple(script[(cur + i) % len(script)]) for i in range(n)]
        cur += n
        return out
    hist = [tuple(h) for h in history]
    samples = draw(B)
    requests = [B]
    exhausted = False
    for p in range(budget):
        counts = {}
        for x in hist + samples:
            counts[x] = counts.get(x, 0) + 1
        rep = [i for i, x in enumerate(samples) if counts[x] > 1]
        if not rep:
            break
        new = draw(len(rep))
        requests.append(len(rep))
        for i, x in zip(rep, new):
            samples[i] = x
        if p == budget - 1:
            exhausted = True
    return requests, sorted(samples), exhausted, cur


class C12(Check):
    pid = "C12"
    level = "exploration"
    engine = "compsim"
    rule = ("one evaluation = one sample() call (a quarter of the cases: two or three calls on the same sampler object, with another "
            "history of the same length, a grown one or the same one; a fifth: the object goes through pickle before/between calls) of "
            "the real BaseSampler.sample on a scripted generator: history (possibly with "
            "repeats), batch size 1-6, 1-3 dims, pass budget 0-6, script mixing fresh points / repeats of history / repeats "
            "within the batch / repeats of earlier redraws; non-trivial = at least one redraw happened; distinct = distinct "
            "(batch size, dims, budget, request-size sequence, exhausted?)")
    assumptions = ["BaseSampler.sample and find_and_get_duplicates: real code", "generator: scripted peer (sim/peers.ScriptedSampler)",
                   "which redraw lands on which repeated position is not prescribed: results compared as multisets"]
    quick = {"runs": 800, "wall": 150, "item_timeout": 100}
    thorough = {"runs": 6000, "wall": 600, "item_timeout": 60}
    CASES = 250

    def gen(self, rng, tier, i):
        return {"engine": "compsim", "case_seed": rng.randrange(2 ** 40), "cases": self.CASES}

    def gen_case(self, rng: random.Random):
        d = rng.randint(1, 3)
        side = rng.choice([2, 3, 4, 6])
        B = rng.randint(1, 6)  # noqa: N806
        budget = rng.randint(0, 6)
        m = rng.randint(0, 8)

        # value lattice: small integers, or large magnitudes on a fine step (distinct neighbours that only a tolerance
        # comparison would confuse)
        off, step = rng.choice([(0.0, 1.0), (0.0, 1.0), (1000.0, 0.001), (2024.0, 0.01), (-5e5, 0.5)])

        def pt():
            return [off + step * rng.randrange(side) for _ in range(d)]
        hist = [pt() for _ in range(m)]
        if hist and rng.random() < 0.4:
            hist.append(list(rng.choice(hist)))          # history that already contains repeats
        script = []
        L = B * (budget + 2)  # noqa: N806
        for _ in range(L):
            u = rng.random()
            if u < 0.35 and hist:
                script.append(list(rng.choice(hist)))            # repeat of history
            elif u < 0.55 and script:
                script.append(list(rng.choice(script)))          # repeat within batch / of an earlier redraw
            else:
                script.append(pt())
        if off == 0.0 and rng.random() < 0.3:
            # signed zeros: -0.0 and 0.0 are the same point of the space (np.unique and == agree), so a repeat that differs only in the sign
            # of a zero coordinate is still a repeat
            script = [[-0.0 if (x == 0.0 and rng.random() < 0.5) else x for x in row] for row in script]
        case = {"d": d, "B": B, "budget": budget, "hist": hist, "script": script, "lattice": [off, step, side]}
        u = rng.random()
        if u < 0.25:
            # the same sampler object is called again: with another history of the same length (a cache keyed by the
            # number of rows would go stale), a grown one, or the very same one
            more = []
            for _ in range(rng.randint(1, 2)):
                v = rng.random()
                prev = more[-1] if more else hist
                if v < 0.5:
                    more.append([pt() if rng.random() < 0.7 else list(x) for x in prev])
                elif v < 0.8:
                    more.append([list(x) for x in prev] + [pt() for _ in range(rng.randint(1, 3))])
                else:
                    more.append([list(x) for x in prev])
            case["more_hists"] = more
            script.extend(list(rng.choice(hist + more[-1] + script)) if rng.random() < 0.5 else pt() for _ in range(L * len(more)))
        if rng.random() < 0.25:
            # simulations that failed: non-finite losses in the history (the points are in the history all the same)
            case["bad_losses"] = [[rng.randrange(64), rng.choice(["inf", "nan", "-inf"])] for _ in range(rng.randint(1, 4))]
        if rng.random() < 0.2:
            case["pickle"] = rng.choice(["before", "between", "both"])   # restart@sampler: the object goes through pickle
        return case

    def run_case(self, case, res: Result):
        d, B, budget = case["d"], case["B"], case["budget"]  # noqa: N806
        off, step, side = case.get("lattice", [0.0, 1.0, 10])
        # the declared space is exactly the lattice the points live on (small spaces: the history may have more rows
        # than the space has points)
        space = make_space({"bounds": [[off] * d, [off + step * (max(side - 1, 1) + 0.25)] * d], "precision": [step] * d})
        import pickle
        s = ScriptedSampler(B, case["script"], max_deduplication_passes=budget)
        pk = case.get("pickle")
        if pk in ("before", "both"):
            s = pickle.loads(pickle.dumps(s))  # noqa: S301
            res.stats["restart@sampler"] += 1
        site = f"B{min(B, 2)}"
        cur = 0
        key = None
        hists = [case["hist"]] + list(case.get("more_hists", []))
        for call, hl in enumerate(hists):
            if call and pk in ("between", "both"):
                s = pickle.loads(pickle.dumps(s))  # noqa: S301
                res.stats["restart@sampler"] += 1
            hist = np.array(hl, dtype=float).reshape((-1, d))
            losses = np.arange(len(hist), dtype=float)
            for pos, kind in case.get("bad_losses", []):
                if len(losses):
                    losses[pos % len(losses)] = float(kind)
            h0 = hist.copy()
            n_req = len(s.requests)
            out = s.sample(space, hist, losses)
            got_req = s.requests[n_req:]
            want_req, want_ms, exhausted, cur = ref_dedup(hl, case["script"], B, budget, cur)
            where = "" if len(hists) == 1 else f" (call {call + 1} of {len(hists)} on the same sampler object)"
            if not np.array_equal(h0, hist):
                res.add("history-modified", site, "sample() changed the history array it was given" + where)
            if np.asarray(out).shape != (B, d):
                res.add("shape", site, f"sample() returned shape {np.asarray(out).shape}, first draw had {(B, d)}{where}; case={case}")
                return None
            if got_req != want_req:
                res.add("request-sizes", site, f"generator asked for {got_req}, reference retry model says {want_req}{where}; case={case}")
                return None
            got_ms = sorted(tuple(r) for r in np.asarray(out).tolist())
            if got_ms != want_ms:
                res.add("result-multiset", site, f"returned {got_ms}, reference (first draw with repeats substituted by redraws) {want_ms}{where}; case={case}")
                return None
            if call:
                res.stats["probe:second-call-same-object"] += 1
            if key is None or len(want_req) > len(key[3]):
                key = (B, d, budget, tuple(want_req), exhausted)
        return key

    def run(self, scn):
        res = Result()
        rng = random.Random(scn["case_seed"])
        keys = set()
        digest_in = []
        with quiet():
            cases = [scn["case"]] if "case" in scn else [self.gen_case(rng) for _ in range(scn["cases"])]
            for case in cases:
                k = self.run_case(case, res)
                digest_in.append(k)
                if k is not None and len(k[3]) > 1:
                    keys.add(repr(k))
                    res.stats["collision@generator"] += len(k[3]) - 1
                    if k[4]:
                        res.stats["probe:dedup-budget-exhausted"] += 1
                if res.violations and "case" not in scn:
                    scn["case"] = case      # the replay file carries the single failing case
                    break
        res.stats["cases"] += len(digest_in)
        res.extra_keys = sorted(keys)
        res.key = None
        res.digest = jdigest([digest_in, res.violations])
        res.sample = cases[0]
        return res

    def shrink(self, scn):
        case = scn.get("case")
        if not case:
            return
        for i in range(len(case["hist"])):
            c = copy.deepcopy(scn)
            del c["case"]["hist"][i]
            yield c
        if case.get("more_hists"):
            c = copy.deepcopy(scn)
            c["case"]["more_hists"].pop()
            if not c["case"]["more_hists"]:
                del c["case"]["more_hists"]
            yield c
            c = copy.deepcopy(scn)
            c["case"]["hist"] = c["case"]["more_hists"].pop(0)
            if not c["case"]["more_hists"]:
                del c["case"]["more_hists"]
            yield c
        if case.get("pickle"):
            c = copy.deepcopy(scn)
            del c["case"]["pickle"]
            yield c
        if case.get("bad_losses"):
            c = copy.deepcopy(scn)
            c["case"]["bad_losses"].pop()
            yield c
        if case["budget"] > 0:
            c = copy.deepcopy(scn)
            c["case"]["budget"] -= 1
            yield c
        if case["B"] > 1:
            c = copy.deepcopy(scn)
            c["case"]["B"] -= 1
            yield c
        if len(case["script"]) > 1:
            c = copy.deepcopy(scn)
            c["case"]["script"] = case["script"][:-1]
            yield c


CHECK = C12()
