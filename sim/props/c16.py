"""C16 - history-driven samplers use the history faithfully and never modify it.

(a) read-only monitor: hash of the lent arrays before/after every sample(), all nine samplers, histories
    with ties, +-inf and float32-overflowing losses (compsim op sequences and whole calibrations);
(b) stub surrogate peer: fit must receive exactly the history, the batch must be the snapped
    batch_size pool candidates with the lowest scripted predictions (ties either way);
(c) best-batch: every proposal descends from one of the batch_size lowest-loss history points by
    1..range-1 grid steps per shocked coordinate, confined to the space.
"""
from __future__ import annotations

import copy
import random

import numpy as np

from sim import calsim
from sim.compsim import gen_losses, grid_points, make_space, pin_third_party, quiet
from sim.core import Check, Result, jdigest
from sim.peers import StubSurrogate
from sim.props.c03 import gen_compsim, run_compsim, shrink_compsim
from sim.seams import Seams


def _snap_set(x, g, rel=1e-12):
    """nearest grid element(s) of x (both neighbours when x is within rounding error - of the arithmetic of the history's
    type - of the midpoint between them)"""
    d = np.abs(g - x)
    return set(g[d <= d.min() + max(1e-12 * max(1.0, abs(x)), rel * abs(x))].tolist())


def check_best_batch(space, sampler, pts, losses, out, res: Result):
    """every proposal = one of the batch_size lowest-loss history points, displaced by 1..range-1 precision steps on at
    least one coordinate, then confined to the space (clipped and/or snapped: either counts).  Parents may lie off the grid
    or outside the space (a calibration continued on narrower bounds)."""
    if type(sampler).__name__ != "BestBatchSampler":
        return
    B = sampler.batch_size  # noqa: N806
    R = sampler.perturbation_range  # noqa: N806
    thr = np.sort(losses)[B - 1]
    parents = pts[losses <= thr]          # ties at the threshold are all admissible parents
    lo, hi = np.asarray(space.parameters_bounds[0], float), np.asarray(space.parameters_bounds[1], float)
    prec = np.asarray(space.parameters_precision, float)
    grids = space.param_grid
    cache = {}
    # a single-precision history is displaced in single precision: a displaced value may sit on either side of a midpoint
    rel = 8 * float(np.finfo(pts.dtype).eps) if np.issubdtype(pts.dtype, np.floating) else 1e-12

    def cands(pi, j):
        key = (pi, j)
        if key not in cache:
            p = parents[pi, j]
            unshocked = _snap_set(min(max(p, lo[j]), hi[j]), grids[j], rel)
            shocked = set()
            for m in range(1, R):
                for sgn in (-1, 1):
                    shocked |= _snap_set(min(max(p + prec[j] * sgn * m, lo[j]), hi[j]), grids[j], rel)
            cache[key] = (unshocked, shocked)
        return cache[key]
    for r in range(len(out)):
        ok = False
        for pi in range(len(parents)):
            some_shock = False
            good = True
            for j in range(space.dims):
                un, sh = cands(pi, j)
                v = float(out[r, j])
                if v in sh:
                    some_shock = True
                elif v not in un:
                    good = False
                    break
            if good and some_shock:
                ok = True
                break
        if not ok:
            res.add("best-batch-descent", "parent-or-shock",
                    f"proposal {out[r].tolist()} cannot be obtained from any of the {B} lowest-loss history points "
                    f"{parents.tolist()[:6]} by displacing at least one coordinate by 1..{R - 1} precision steps {prec.tolist()} and "
                    f"confining it to bounds {lo.tolist()}..{hi.tolist()}")
            return
    res.stats["best-batch-proposals-checked"] += len(out)


def run_stub(scn, res: Result):
    space = make_space(scn["space"])
    nrng = np.random.default_rng(scn["hist_seed"])
    pts = grid_points(space, nrng, scn["hist_n"])
    losses = gen_losses(nrng, len(pts), scn["loss_mode"])
    s = StubSurrogate(scn["bs"], scn["pool"], scn["pred_seed"], scn["pred_mode"], max_deduplication_passes=scn["passes"],
                      random_state=scn["ctor_seed"])
    from black_it.utils.base import digitize_data
    n_calls = 0
    for _ in range(scn["calls"]):
        p0, l0 = pts.copy(), losses.copy()
        mark = len(s.calls)
        out = np.asarray(s.sample(space, pts, losses))
        if pts.tobytes() != p0.tobytes() or losses.tobytes() != l0.tobytes():
            res.add("history-modified", "surrogate-base", "MLSurrogateSampler.sample() modified the arrays it was lent")
            pts, losses = p0, l0
        seg = s.calls[mark:]
        # per sample_batch call: one fit and one predict
        fits = [c for c in seg if c[0] == "fit"]
        preds = [c for c in seg if c[0] == "predict"]
        if not fits or len(fits) != len(preds):
            res.add("surrogate-protocol", "fit-predict", f"sample() made {len(fits)} fit and {len(preds)} predict calls")
            return n_calls
        for f in fits:
            if f[1].tobytes() != p0.tobytes() or f[2].tobytes() != l0.tobytes() or f[1].shape != p0.shape:
                res.add("surrogate-trained-on", "not-the-history",
                        f"fit() received X of shape {f[1].shape} / y of shape {f[2].shape}; the history has {p0.shape[0]} points "
                        f"(equal content: X {f[1].tobytes() == p0.tobytes()}, y {f[2].tobytes() == l0.tobytes()})")
                return n_calls
        # judge the first sample_batch call (the one that produced the batch before deduplication) when no redraw
        # happened; with redraws judge every call on the rows it contributed: each row of the final batch must be
        # an admissible choice of *some* call
        first = preds[0]
        pool, p = first[1], first[2]
        if len(pool) != scn["pool"]:
            res.add("pool-size", "candidates", f"predict() received {len(pool)} candidates, candidate_pool_size={scn['pool']}")
            return n_calls
        if len(preds) == 1:
            snapped = digitize_data(pool, space.param_grid)
            B = scn["bs"]  # noqa: N806
            v = np.sort(p)[B - 1]
            must = [tuple(r) for r in snapped[p < v]]
            may = [tuple(r) for r in snapped[p == v]]
            got = [tuple(r) for r in out]
            rest = list(got)
            okm = True
            for m in must:
                if m in rest:
                    rest.remove(m)
                else:
                    okm = False
                    break
            if okm:
                pool_may = list(may)
                for g in rest:
                    if g in pool_may:
                        pool_may.remove(g)
                    else:
                        okm = False
                        break
            if not okm or len(got) != B:
                res.add("surrogate-selection", "not-lowest",
                        f"batch {got} is not the snapped {B} candidates with lowest predictions: predictions sorted {np.sort(p)[:B + 3].tolist()}, "
                        f"must-include {must}, tie candidates {may[:6]}")
                return n_calls
            res.stats["surrogate-selections-checked"] += 1
            if (p == v).sum() > 1:
                res.stats["probe:tied-threshold"] += 1
        else:
            res.stats["probe:surrogate-redraw"] += 1
        n_calls += 1
        pts = np.vstack((pts, out))
        losses = np.hstack((losses, gen_losses(nrng, len(out), scn["loss_mode"])))
    return n_calls


class C16(Check):
    pid = "C16"
    level = "exploration"
    engine = "compsim+calsim"
    rule = ("one evaluation = (a) an op sequence on one built-in sampler with ties/inf/float32-overflowing losses and the read-only "
            "monitor (the arrays of the current call and every array lent at an earlier call; a quarter of the histories are lent as "
            "views of one preallocated buffer), (b) a stub-surrogate scenario (scripted fit/predict with ties, negative, huge and "
            "infinite scores) judged per call, "
            "(c) a best-batch op sequence with the descent oracle, or (d) a whole simulated calibration with extreme model outputs; "
            "non-trivial = at least one successful sample() on a non-empty history; distinct = distinct (mode, sampler class, "
            "loss mode, dims, ops)")
    assumptions = ["samplers real; sklearn/xgboost real, single-threaded", "stub surrogate = importable MLSurrogateSampler subclass with scripted fit/predict",
                   "best-batch oracle accepts clipping or snapping ('confined to the space') and any parent tied at the batch_size-th lowest loss"]
    quick = {"runs": 3000, "wall": 150, "item_timeout": 120}
    thorough = {"runs": 60000, "wall": 900, "item_timeout": 90}

    def gen(self, rng, tier, i):
        u = rng.random()
        if u < 0.15:
            cfg = calsim.gen_config(rng, rl_prob=0.1, extreme_prob=1.0, loss_kinds=["minkowski", "msm"],
                                    kinds=["uniform", "halton", "xgb", "rf", "bestbatch", "pso", "rseq"])
            return {"engine": "calsim", "config": cfg, "env": {}, "ops": [["calibrate", rng.randint(3, 8)]],
                    "sim_seed": rng.randrange(2 ** 31)}
        if u < 0.45:
            dims = rng.randint(1, 4)
            bs = rng.randint(1, 5)
            return {"engine": "stub", "space": calsim.gen_space(rng, dims, small=rng.random() < 0.5), "bs": bs,
                    "pool": rng.randint(bs, bs + 25), "pred_seed": rng.randrange(10 ** 6),
                    "pred_mode": rng.choice(["ties", "ties", "huge", "neg", "normal", "inf"]), "passes": rng.choice([0, 0, 2, 5]),
                    "ctor_seed": rng.randrange(2 ** 31), "hist_seed": rng.randrange(2 ** 31), "hist_n": rng.randint(1, 12),
                    "loss_mode": rng.choice(["ties", "huge", "inf", "plain", "const"]), "calls": rng.randint(1, 4)}
        if u < 0.7:
            scn = gen_compsim(rng, kinds=["bestbatch"])
            scn["loss_mode"] = rng.choice(["ties", "ties", "plain", "huge", "inf", "const"])
            if rng.random() < 0.35:
                scn["offspace"] = rng.randrange(1, 2 ** 31)      # some of the best history points lie outside the space / off the grid
            return scn
        scn = gen_compsim(rng)
        kind = scn["sampler"]["cls"]
        scn["loss_mode"] = rng.choice(["ties", "huge", "inf", "const"] if kind not in ("cors", "gp") else ["ties", "huge" if kind == "gp" else "ties", "const"])
        return scn

    def run(self, scn):
        res = Result()
        eng = scn["engine"]
        if eng == "calsim":
            sim = calsim.CalSim(scn).run()
            for (pid, clause, site, detail) in sim.mon:
                if pid == "C16":
                    res.add(clause, site, detail)
            res.stats.update(sim.stats)
            if len(sim.batches) >= 2:
                res.key = "calsim:" + jdigest(scn["config"]["lineup"])
            res.digest = sim.digest()
            res.sample = {"engine": "calsim", "lineup": [s["cls"] for s in scn["config"]["lineup"]]}
            return res
        seams = Seams()
        with quiet():
            pin_third_party(seams)
            try:
                if eng == "stub":
                    n = run_stub(scn, res)
                    res.key = f"stub:{scn['pred_mode']}:{scn['loss_mode']}:{scn['bs']}:{scn['pool']}:{scn['passes']}" if n else None
                else:
                    cls, n = run_compsim(scn, res, check_fn=check_best_batch)
                    if n >= 1:
                        res.key = f"{cls}:{scn['loss_mode']}:{len(scn['space']['precision'])}:{''.join(o[0][0] for o in scn['ops'])}"
                    if scn["loss_mode"] in ("huge", "inf") and cls == "XGBoostSampler" and n:
                        res.stats["probe:float32-overflow-loss-reached-xgboost"] += 1
            finally:
                seams.undo()
        res.digest = jdigest([res.violations, dict(res.stats)])
        res.sample = {k: v for k, v in scn.items() if k not in ("verif_seed", "run_index", "property")}
        return res

    def shrink(self, scn):
        if scn["engine"] == "calsim":
            yield from calsim.shrink_scn(scn)
        elif scn["engine"] == "compsim":
            yield from shrink_compsim(scn)
        else:
            for k, lo in (("calls", 1), ("hist_n", 1), ("bs", 1), ("passes", 0)):
                if scn[k] > lo:
                    c = copy.deepcopy(scn)
                    c[k] = max(lo, scn[k] - 1)
                    if c["pool"] >= c["bs"]:
                        yield c
            if scn["pool"] > scn["bs"]:
                c = copy.deepcopy(scn)
                c["pool"] -= 1
                yield c


CHECK = C16()
