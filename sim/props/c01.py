"""C01 - a calibration run is a pure function of its configuration and seed.

Twin executions of one scenario under perturbed environments (number of jobs and worker completion
order, verbosity, saving folder, sampler-constructor seeds, ambient RNG state, clock jumps, RL thread
schedule) must give bit-identical histories, return values and model-call sequences.
"""
from __future__ import annotations

import copy

import numpy as np

from sim import calsim
from sim.core import Check, Result, arr_digest, jdigest


def gen_perturbation(rng, rl):
    kinds = ["n_jobs", "verbose", "folder", "ctor_seed", "ambient", "clock", "prelude"]
    if rl:
        kinds.append("sched")
    chosen = rng.sample(kinds, rng.randint(1, 3))
    env = {}
    for k in chosen:
        if k == "n_jobs":
            env["n_jobs"] = rng.choice([2, 4])
            env["salt"] = rng.randrange(1000)
        elif k == "verbose":
            env["verbose"] = True
        elif k == "folder":
            env["folder"] = True
        elif k == "ctor_seed":
            # (an explicit other seed, never None: OS entropy would make a failing run impossible to replay exactly)
            env["ctor_seed"] = rng.randrange(1, 2 ** 31)
        elif k == "ambient":
            env["ambient"] = rng.randrange(1, 2 ** 31)
        elif k == "clock":
            env["clock_jumps"] = {str(rng.randint(1, 40)): rng.choice([-3600.0, 86400.0, -1e9, 0.5]) for _ in range(rng.randint(1, 3))}
        elif k == "prelude":
            env["prelude"] = rng.randrange(1, 2 ** 31)       # another, unrelated calibration runs first in the same process
        elif k == "sched":
            env["sched"], env["trace_lines"] = calsim.gen_sched(rng, True)
    return env


def calls_signature(sim):
    """(theta, N, seed) of every model call, in task order"""
    out = []
    for b in sim.batches:
        for c in b.calls:
            out.append((c[0], arr_digest(c[1]), None if c[2] is None else int(c[2]), None if c[3] is None else int(c[3])))
    return out


def compare(base, other, label, res: Result):
    for k, (ra, rb) in enumerate(zip(base.op_results, other.op_results)):
        ea, eb = ra["exc"], rb["exc"]
        if (ea is None) != (eb is None) or (ea and eb and ea[0] != eb[0]):
            res.add("outcome-differs", label, f"calibrate call {k}: baseline {'raised ' + str(ea) if ea else 'returned'}, "
                                              f"under {label} it {'raised ' + str(eb) if eb else 'returned'}")
            return
        d = calsim.hist_equal(ra["snap"], rb["snap"])
        if d:
            sa, sb = ra["snap"], rb["snap"]
            res.add("history-differs", label, f"after calibrate call {k} the histories differ in {d}: rows {sa['n']} vs {sb['n']}, "
                                              f"batch index {sa['batch_index']} vs {sb['batch_index']}, first losses {sa['losses'][:4].tolist()} vs {sb['losses'][:4].tolist()}, "
                                              f"methods {sa['method'].tolist()[:12]} vs {sb['method'].tolist()[:12]}")
            return
        if ra["ret"] is not None and rb["ret"] is not None:
            if ra["ret"][0].tobytes() != rb["ret"][0].tobytes() or ra["ret"][1].tobytes() != rb["ret"][1].tobytes():
                res.add("return-differs", label, f"calibrate call {k} returned different (params, losses)")
                return
    if len(base.op_results) != len(other.op_results):
        res.add("outcome-differs", label, "different number of completed operations")
        return
    if other.env.get("real_pool"):
        return          # the real pool is not instrumented: histories and return values were compared above
    if calls_signature(base) != calls_signature(other):
        a, b = calls_signature(base), calls_signature(other)
        k = next((i for i, (x, y) in enumerate(zip(a, b)) if x != y), min(len(a), len(b)))
        res.add("model-calls-differ", label, f"model call sequence (theta, N, seed by task index) differs at call {k}: "
                                             f"{a[k] if k < len(a) else None} vs {b[k] if k < len(b) else None}")


def perturbation_label(env):
    return "+".join(sorted(k for k in env if k not in ("salt",)))


class C01(Check):
    pid = "C01"
    level = "exploration"
    engine = "calsim"
    rule = ("one evaluation = one generated configuration (line-up of 1-6 of the nine samplers with random options, round-robin or RL "
            "single session, any built-in loss, 1-4 parameters, ensemble 1-3, 1-12 batches, optional convergence precision) executed "
            "once in a baseline environment and in 1-3 perturbed environments (n_jobs 2/4 with isolation and seeded completion order, "
            "verbose, saving folder, sampler-constructor seeds incl. None, ambient numpy/random state, clock jumps, RL thread schedule); "
            "non-trivial = at least two batches completed in the baseline; distinct = distinct (configuration, perturbation set)")
    assumptions = ["Calibrator and everything below it: real code", "joblib.Parallel replaced by SimParallel (lazy dispatch window 2*n_jobs, "
                   "pickle isolation, seeded completion order); real loky is not exercised", "another PYTHONHASHSEED is covered by the "
                   "fresh-interpreter probe of the runner, not per scenario"]
    quick = {"runs": 600, "wall": 300, "item_timeout": 300}
    thorough = {"runs": 20000, "wall": 900, "item_timeout": 180}

    def gen(self, rng, tier, i):
        cfg = calsim.gen_config(rng, rl_prob=0.3, feature=calsim.SAMPLER_KINDS[i % 9])
        if rng.random() < 0.2:
            # a model that seeds numpy's global generator and draws from it (the example notebooks' idiom): a pure function
            # of (theta, N, seed) as long as each simulation has its interpreter to itself
            cfg["model"]["kind"] = "globalrng"
        if rng.random() < 0.25:
            cfg["convergence_precision"] = rng.choice([0, 0, 1, 2])
        if rng.random() < 0.12 and cfg["model"]["kind"] != "scripted":
            cfg["model"]["mutates"] = True            # a user model that scribbles over the parameter array it receives
            cfg["ensemble"] = rng.choice([1, 1, 2])
        if rng.random() < 0.15:
            cfg["cal_seed"] = rng.choice([0, 0, 1, 2 ** 32 - 1, 2 ** 40 + 3])       # "any calibrator seed": falsy and large ones too
        n = rng.randint(1, 12)
        if rng.random() < 0.15:
            calsim.make_scripted_convergence(cfg, rng)
        rl = cfg["scheduler"]["kind"] == "rl"
        perts = [gen_perturbation(rng, rl) for _ in range(rng.randint(1, 3))]
        scn = {"engine": "calsim", "config": cfg, "env": {}, "ops": [["calibrate", n]], "perturbations": perts,
               "sim_seed": rng.randrange(2 ** 31)}
        if rng.random() < (0.08 if tier == "quick" else 0.03):
            # twin in a fresh interpreter (nothing else ever ran there) with another PYTHONHASHSEED
            scn["hashseed"] = str(rng.randrange(1, 2 ** 32))
        if rng.random() < (0.015 if tier == "quick" else 0.01):
            # confirmation of the SimParallel stub: the same run on real joblib/loky worker processes
            scn["perturbations"].append({"real_pool": True, "n_jobs": rng.choice([2, 4])})
        return scn

    def run(self, scn):
        res = Result()
        # twins that start with an unrelated calibration ("prelude") run first, while the process is still pristine: what the
        # prelude leaves behind in process-level state must not change the calibration that follows it
        early = {}
        for k, env in enumerate(scn["perturbations"]):
            if env.get("prelude"):
                early[k] = calsim.CalSim(scn, env=env, label=perturbation_label(env)).run()
        base = calsim.CalSim(scn, label="base").run()
        digests = [base.digest()]
        res.stats["executions"] += 1
        done = len(base.completed_batches()) if base.cal is not None else 0
        from sim.core import subprocess_ok
        for k, env in enumerate(scn["perturbations"]):
            if env.get("real_pool") and not subprocess_ok():
                res.stats["skipped:real-pool(no subprocess)"] += 1
                continue
            label = perturbation_label(env)
            other = early[k] if k in early else calsim.CalSim(scn, env=env, label=label).run()
            res.stats["executions"] += 1
            for k in env:
                if k != "salt":
                    res.stats[f"perturb:{k}"] += 1
            res.stats.update(other.stats)
            if env.get("real_pool") and other.op_results and other.op_results[0]["exc"] and not (base.op_results and base.op_results[0]["exc"]):
                # the real worker pool could not do its job in this sandbox: a confirmation that did not take place
                res.stats["skipped:real-pool-raised:" + other.op_results[0]["exc"][0]] += 1
                continue
            probe = Result()
            compare(base, other, label, probe)
            if probe.violations and len([k for k in env if k != "salt"]) > 1:
                # attribute the difference to a single perturbation where possible (keeps signatures stable under shrinking)
                attributed = False
                for k in sorted(env):
                    if k == "salt":
                        continue
                    single = {k: env[k]}
                    if k == "n_jobs" and "salt" in env:
                        single["salt"] = env["salt"]
                    one = calsim.CalSim(scn, env=single, label=k).run()
                    before = len(res.violations)
                    compare(base, one, k, res)
                    attributed = attributed or len(res.violations) > before
                if not attributed:
                    compare(base, other, "combination", res)
            else:
                compare(base, other, label, res)
            digests.append(other.digest())
            if done >= 2:
                res.extra_keys.append(jdigest([scn["config"], label]))
        if scn.get("hashseed"):
            if subprocess_ok():
                self.hashseed_twin(scn, digests[0], res)
            else:
                res.stats["skipped:hashseed-twin(no subprocess)"] += 1
        if base.op_results and base.op_results[0]["exc"]:
            res.stats["baseline-raised"] += 1
        if base.op_results and base.op_results[0]["snap"]["batch_index"] < scn["ops"][0][1] and not base.op_results[0]["exc"]:
            res.stats["probe:stopped-early-at-convergence"] += 1
        res.digest = jdigest(digests)
        c = scn["config"]
        res.sample = {"lineup": [(s["cls"], s["batch_size"]) for s in c["lineup"]], "scheduler": c["scheduler"], "loss": c["loss"],
                      "ensemble": c["ensemble"], "batches": scn["ops"][0][1], "perturbations": scn["perturbations"],
                      "baseline_rows": base.op_results[0]["snap"]["n"] if base.op_results else None}
        return res

    def hashseed_twin(self, scn, base_digest, res):
        import json
        import os
        import tempfile
        from pathlib import Path

        from sim.core import run_in_fresh_interpreter
        twin = {k: v for k, v in scn.items() if k not in ("hashseed", "perturbations", "expect")}
        twin["perturbations"] = []
        fd, path = tempfile.mkstemp(prefix="verif-c01-hs-", suffix=".json")
        os.close(fd)
        try:
            Path(path).write_text(json.dumps(twin))
            rc, last, txt = run_in_fresh_interpreter("C01", Path(path), hashseed=scn["hashseed"], timeout=240)
        finally:
            os.unlink(path)
        res.stats["perturb:hashseed(fresh interpreter)"] += 1
        if last is None:
            raise RuntimeError("hash-seed twin produced no result: " + txt[-500:])
        if last["digest"] != jdigest([base_digest]):
            res.add("history-differs", "hashseed", f"the same configuration executed in a fresh interpreter with PYTHONHASHSEED={scn['hashseed']} "
                                                   f"produced a different event log (digest {last['digest']} vs {jdigest([base_digest])})")

    def shrink(self, scn):
        if scn.get("hashseed") and scn["perturbations"]:
            c = copy.deepcopy(scn)
            c["perturbations"] = []
            yield c
        if len(scn["perturbations"]) > 1:
            for i in range(len(scn["perturbations"])):
                c = copy.deepcopy(scn)
                c["perturbations"] = [scn["perturbations"][i]]
                yield c
        p = scn["perturbations"][0] if scn["perturbations"] else {}
        if len([k for k in p if k != "salt"]) > 1:
            for k in list(p):
                if k == "salt":
                    continue
                c = copy.deepcopy(scn)
                del c["perturbations"][0][k]
                yield c
        yield from calsim.shrink_scn(scn)


CHECK = C01()
