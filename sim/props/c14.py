"""C14 - early stopping happens exactly when the best loss rounds to zero.

Loss sequences are dictated through the model seam (scripted model, real data = 0, Minkowski p=1,
one time step: loss = |scripted value|).  Reference model RefStop: each calibrate(n) runs until the
first batch after which the running minimum rounds to zero at p decimals, or n batches.
"""
from __future__ import annotations

import copy

import numpy as np

from sim import calsim
from sim.core import Check, Result, jdigest

SAMPLERS = ["uniform", "halton", "rseq", "pso"]


class C14Sim(calsim.CalSim):
    """after every calibrate() with a folder, restore it and remember the restored state"""

    def do_op(self, op):
        k = len(self.op_results)
        if k in self.scn.get("restore_before", ()) and self.folder is not None and not getattr(self, "_restoring", False):
            import os
            if os.path.exists(os.path.join(self.folder, "calibration_params.json")):
                self._restoring = True
                try:
                    r = super().do_op(["restore"])      # crash + restore: the stop rule must survive it
                finally:
                    self._restoring = False
                if r.get("fatal"):
                    return {"op": op, "exc": r["exc"], "ret": None, "snap": None, "fatal": True}
        return super().do_op(op)

    def do_calibrate(self, n):
        r = super().do_calibrate(n)
        r["restored"] = None
        if self.folder is not None:
            from black_it.calibrator import Calibrator
            try:
                rest = Calibrator.restore_from_checkpoint(self.folder, model=self.model)
                r["restored"] = self.snapshot(rest)
            except Exception as e:  # noqa: BLE001
                r["restored"] = ("error", f"{type(e).__name__}: {e}"[:200])
        return r


class C14(Check):
    pid = "C14"
    level = "exploration"
    engine = "calsim"
    rule = ("one evaluation = one scripted loss sequence (a quarter of them signed, through a user-defined read-off loss) x convergence precision (None, 0-12) x verbose on/off twin x folder on/off x "
            "1-3 calibrate(n) calls on a real Calibrator with 1-3 history-free samplers; compared with the reference stop model "
            "(batches run, rows, batch index per call), verbose twin bit-identical, restored checkpoint equal to the returned state; "
            "non-trivial = a call stopped early; distinct = distinct (precision, stop positions per call, folder, line-up sizes)")
    assumptions = ["Calibrator.calibrate/check_convergence/create_checkpoint/restore: real code", "losses dictated through the model seam; scripted "
                   "values stay away from the half-unit rounding boundary so numpy and mathematical rounding agree"]
    quick = {"runs": 1500, "wall": 150, "item_timeout": 200}
    thorough = {"runs": 30000, "wall": 900, "item_timeout": 120}

    def gen(self, rng, tier, i):
        dims = rng.randint(1, 2)
        lineup = [calsim.gen_sampler_spec(rng, rng.choice(SAMPLERS), rng.randint(1, 3)) for _ in range(rng.randint(1, 3))]
        prec = rng.choice([None, 0, 1, 2, 3, 4, 6, 9, 12, rng.randint(0, 12)])
        calls = [rng.randint(1, 10)] + [rng.randint(1, 4) for _ in range(rng.randint(0, 2))]
        total = sum(calls) * 3 + 3

        def val():
            u = rng.random()
            if u < 0.08:
                return 0.0
            m = rng.choice([1, 2, 3, 4, 6, 7, 8, 9])
            k = rng.randint(0, 13) if u < 0.5 else rng.randint(0, 3)
            return float(f"{m}e-{k}")
        script = [val() for _ in range(total)]
        rl = rng.random() < 0.15
        # (signed losses only with the round-robin scheduler: the RL reward, a relative improvement, is undefined once the
        # reference best is exactly 0 and a negative loss follows - the division by zero ends the agent's thread)
        signed = not rl and rng.random() < 0.25
        if signed:
            # a loss that can be negative (user-defined / likelihood-type): the stop rule looks at the *smallest* loss
            script = [-v if rng.random() < 0.3 else v for v in script]
        if prec is not None and rng.random() < 0.5:
            # make sure a value that rounds to zero appears somewhere in the first call
            pos = rng.randrange(0, min(len(script), calls[0] * 2))
            script[pos] = float(f"{rng.choice([1, 2, 3, 4])}e-{prec + 1 + rng.randint(0, 2)}")
        E = rng.randint(1, 2)  # noqa: N806
        sched = {"kind": "rr"}
        if rl:
            # the stop rule is the calibrator's: it must hold just the same when the scheduler runs an agent on a second thread
            sched = {"kind": "rl", "agent": {"kind": "scripted", "script": [rng.randrange(8) for _ in range(rng.randint(1, 6))]}}
        cfg = {"space": calsim.gen_space(rng, dims), "lineup": lineup, "scheduler": sched,
               "loss": {"cls": "readoff", "opts": {}} if signed else {"cls": "minkowski", "opts": {"p": 1}},
               "model": {"kind": "scripted", "D": 1, "extreme": 0.0},
               "N": 1, "sim_length": None, "real_seed": 0, "ensemble": E, "cal_seed": rng.randrange(2 ** 31),
               "convergence_precision": prec, "script": script, "script_per": E}
        env = {"verbose": rng.random() < 0.5, "folder": rng.random() < 0.5}
        ops = [["calibrate", n] for n in calls]
        scn_restore = env["folder"] and len(ops) > 1 and rng.random() < 0.3
        if len(ops) > 1 and not scn_restore and not rl and rng.random() < 0.15:
            k = rng.randrange(0, len(ops) - 1)
            ops[k] = ["calibrate_fault_update", ops[k][1], rng.randrange(ops[k][1])]     # the scheduler hook raises once; the caller goes on
        scn = {"engine": "calsim", "config": cfg, "env": env, "ops": ops, "sim_seed": rng.randrange(2 ** 31)}
        if scn_restore:
            scn["restore_before"] = sorted(rng.sample(range(1, len(ops)), rng.randint(1, len(ops) - 1)))   # the process is replaced before these calls
        return scn

    def run(self, scn):
        res = Result()
        cfg = scn["config"]
        sim = C14Sim(scn).run()
        twin = C14Sim(scn, env={"verbose": not sim.env["verbose"]}).run()
        calls = [op[1] for op in scn["ops"]]
        prec = cfg["convergence_precision"]
        signed = cfg["loss"]["cls"] == "readoff"
        script = [v if signed else abs(v) for v in cfg["script"]]
        if signed:
            res.stats["signed-loss-sequences"] += 1
        # batch sizes are taken from what the sampler seam observed (who is scheduled is C09's business, not this property's)
        sizes = [len(b.returned) for b in sim.batches if b.returned is not None]
        si = rows = bidx = 0
        best = np.inf
        early, want = [], []
        for k, (op, r) in enumerate(zip(scn["ops"], sim.op_results)):
            n = op[1]
            fault_at = op[2] if op[0] == "calibrate_fault_update" else None
            ran, raised = 0, False
            for b in range(n):
                if si >= len(sizes):
                    break
                bs = sizes[si]
                si += 1
                best = min([best] + [script[min(rows + j, len(script) - 1)] for j in range(bs)])
                rows += bs
                if fault_at is not None and b == fault_at:
                    raised = True
                    break
                bidx += 1
                ran += 1
                if prec is not None and np.round(best, prec) == 0:
                    break
            want.append((ran, rows, bidx, raised))
            snap = r["snap"]
            if raised:
                res.stats["raise@scheduler-update"] += 1
                if not r["exc"] or r["exc"][0] != "InjectedFault":
                    res.add("update-fault-not-propagated", "scheduler-hook", f"call {k}: the scheduler hook raised but calibrate() {'returned' if not r['exc'] else 'raised ' + str(r['exc'])}")
                    break
                lens = {len(snap[a]) for a in ("params", "losses", "series", "batch_num", "method")}
                if lens != {snap["n"]}:
                    res.add("counter-disagrees-with-history", "after-hook-fault",
                            f"call {k}: after the scheduler hook raised the per-sample records have lengths {sorted(lens)} and the sample counter is {snap['n']}")
                    break
                # whether the batch whose hook failed is kept or not is not this property's business: go on from what is there
                rows, bidx = snap["n"], snap["batch_index"]
                best = min([np.inf] + script[:rows]) if rows <= len(script) else best
                early.append(False)
                continue
            if r["exc"]:
                res.add("raised", r["exc"][0], f"calibrate call {k} raised {r['exc']}")
                break
            # harness sanity: the losses are the script
            m = len(snap["losses"])
            exp_losses = np.array(script[:m])
            if m <= len(script) and not np.array_equal(snap["losses"], exp_losses):
                raise RuntimeError(f"harness: losses are not the script: {snap['losses'].tolist()} vs {exp_losses.tolist()}")
            if m != snap["n"]:
                res.add("counter-disagrees-with-history", "n_sampled_params", f"call {k}: {m} losses recorded but the sample counter is {snap['n']}")
                break
            if snap["batch_index"] != bidx or snap["n"] != rows:
                kind = "stopped-too-early" if snap["batch_index"] < bidx else "did-not-stop"
                res.add(kind, "verbose" if sim.env["verbose"] else "quiet",
                        f"calibrate call {k} (n={calls[k]}, precision={prec}, verbose={sim.env['verbose']}): batch index "
                        f"{snap['batch_index']} / {snap['n']} rows, reference stop model says {bidx} / {rows}; losses {snap['losses'].tolist()[:14]}")
                break
            if len(r["ret"][1]) != rows:
                res.add("return-missing-stop-batch", "return", f"call {k}: calibrate() returned {len(r['ret'][1])} rows, history has {rows}")
            early.append(ran < calls[k])
            if sim.folder is not None:
                rs = r["restored"]
                if rs is None or isinstance(rs, tuple):
                    res.add("checkpoint-missing", "folder", f"call {k}: calibrate() returned with a saving folder set but restoring it failed: {rs}")
                else:
                    d = calsim.hist_equal(snap, rs)
                    if d:
                        res.add("checkpoint-lacks-stop-batch" if ran < calls[k] else "checkpoint-stale", "folder",
                                f"call {k}: the folder holds {rs['n']} rows / batch index {rs['batch_index']}, calibrate() returned with "
                                f"{snap['n']} / {snap['batch_index']} (differs in {d}); stopped early: {ran < calls[k]}")
        for k, (ra, rb) in enumerate(zip(sim.op_results, twin.op_results)):
            d = calsim.hist_equal(ra["snap"], rb["snap"])
            if d or (ra["exc"] is None) != (rb["exc"] is None):
                res.add("verbosity-dependence", "twin", f"call {k}: verbose={sim.env['verbose']} gives batch index {ra['snap']['batch_index']}, "
                                                        f"verbose={twin.env['verbose']} gives {rb['snap']['batch_index']} (differs in {d})")
                break
        if any(early) and cfg["scheduler"]["kind"] == "rl":
            res.stats["probe:stopped-early-under-rl-scheduler"] += 1
        if any(early):
            res.stats["probe:stopped-early"] += 1
            if want[0][0] == 1 and early and early[0]:
                res.stats["probe:convergence-on-first-batch"] += 1
            if len(early) > 1 and any(early[1:]):
                res.stats["probe:later-call-stops-after-one-batch"] += 1
            res.key = jdigest([cfg["convergence_precision"], [(w[0], w[3]) for w in want], sim.env["folder"], [s["batch_size"] for s in cfg["lineup"]]])
        res.stats["calibrate-calls"] += len(calls)
        res.digest = jdigest([sim.digest(), twin.digest()])
        res.sample = {"precision": cfg["convergence_precision"], "script": cfg["script"][:12], "lineup": [(s["cls"], s["batch_size"]) for s in cfg["lineup"]],
                      "calls": calls, "env": scn["env"], "reference": want}
        return res

    def shrink(self, scn):
        for i in range(len(scn["ops"]) - 1, 0, -1):
            c = copy.deepcopy(scn)
            del c["ops"][i]
            yield c
        for i, op in enumerate(scn["ops"]):
            if op[1] > 1:
                c = copy.deepcopy(scn)
                c["ops"][i][1] = op[1] - 1
                yield c
        cfg = scn["config"]
        if len(cfg["lineup"]) > 1:
            c = copy.deepcopy(scn)
            c["config"]["lineup"] = cfg["lineup"][:1]
            yield c
        if cfg["lineup"][0]["batch_size"] > 1:
            c = copy.deepcopy(scn)
            c["config"]["lineup"][0]["batch_size"] = 1
            yield c
        if cfg["ensemble"] > 1:
            c = copy.deepcopy(scn)
            c["config"]["ensemble"] = 1
            c["config"]["script_per"] = 1
            yield c
        if scn["env"].get("folder"):
            c = copy.deepcopy(scn)
            c["env"]["folder"] = False
            yield c
        if len(cfg["space"]["precision"]) > 1:
            c = copy.deepcopy(scn)
            for k in (0, 1):
                c["config"]["space"]["bounds"][k] = cfg["space"]["bounds"][k][:1]
            c["config"]["space"]["precision"] = cfg["space"]["precision"][:1]
            yield c
        for i in range(len(cfg["script"]) - 1, 0, -1):
            if cfg["script"][i] != 3.0:
                c = copy.deepcopy(scn)
                c["config"]["script"][i] = 3.0
                yield c
                break


CHECK = C14()
