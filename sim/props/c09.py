"""C09 - samplers are scheduled exactly as the chosen scheduler prescribes."""
from __future__ import annotations

import copy
import contextlib
import io

from sim import calsim
from sim.core import Check, Result, jdigest


class C09(Check):
    pid = "C09"
    level = "exploration"
    engine = "calsim"
    rule = ("one evaluation = one op history on a real Calibrator: several calibrate(n) calls with plain continuation, "
            "crash+restore or crash-inside-a-batch+restore between them, line-ups of 1-6 samplers (repeated classes, different batch "
            "sizes), round-robin or RL scheduler with scripted or epsilon-greedy agent under a seeded thread schedule; the sampler seam "
            "records which position of scheduler.samplers produced each batch; plus the four constructor combinations; non-trivial = "
            "at least 3 completed batches; distinct = distinct (scheduler kind, line-up classes/sizes, op list)")
    assumptions = ["Calibrator, RoundRobinScheduler, RLScheduler, agents: real code; RL thread under the baton scheduler",
                   "RL oracle deliberately does not say which pending action is dropped at a session end (that is C10's business): the positions "
                   "used must be a subsequence of the agent's policy values, each used at most once, in order"]
    quick = {"runs": 900, "wall": 300, "item_timeout": 200}
    thorough = {"runs": 30000, "wall": 900, "item_timeout": 120}

    def gen(self, rng, tier, i):
        rl = rng.random() < 0.4
        cheap = ["uniform", "halton", "rseq", "pso", "bestbatch", "uniform", "halton", "rf"]
        cfg = calsim.gen_config(rng, rl_prob=1.0 if rl else 0.0, kinds=cheap, loss_kinds=["minkowski", "msm"], extreme_prob=0.12)
        if cfg["model"].get("extreme"):
            cfg["model"]["extreme"] = rng.choice([0.3, 0.7, 1.0])     # diverging simulations: non-finite losses, possibly from the first batch on
        if rl and rng.random() < 0.5:
            cfg["scheduler"]["agent"] = {"kind": "scripted", "script": [rng.randrange(8) for _ in range(rng.randint(1, 9))]}
        if rng.random() < 0.15:
            # the convergence stop ends sessions early; the designation order must carry on from there
            calsim.make_scripted_convergence(cfg, rng, n_values=rng.randint(2, 8))
        if not rl and len(cfg["lineup"]) >= 2 and rng.random() < 0.1:
            # the same sampler object listed at two positions of the line-up (a line-up is a sequence, not a set)
            j = rng.randrange(len(cfg["lineup"]))
            dup = copy.deepcopy(cfg["lineup"][j])
            dup["alias_of"] = j
            cfg["lineup"].insert(rng.randrange(j + 1, len(cfg["lineup"]) + 1), dup)
        folder = rng.random() < 0.6
        ops = []
        u0 = rng.random()
        if u0 < 0.06:
            ops.append(["calibrate", 0])                      # a session that ends before any batch
        elif u0 < 0.14:
            ops.append(["calibrate_fault", rng.randint(1, 2), 0])      # the very first batch fails
        for k in range(rng.randint(1, 4)):
            if k > 0 and rng.random() < 0.25:
                # a batch fails (the model raises), the caller catches it and goes on with the same object
                ops.append(["calibrate_fault", rng.randint(1, 3), rng.randint(0, 5)])
            if k > 0 and folder:
                u = rng.random()
                if u < 0.3:
                    ops.append(["restore"])
                elif u < 0.45:
                    ops.append(["calibrate_crash", rng.randint(1, 2), rng.randint(0, 3)])
                    ops.append(["restore"])
            ops.append(["calibrate", rng.randint(1, 5)])
        env = {"folder": folder, "n_jobs": 1}
        env["sched"], env["trace_lines"] = calsim.gen_sched(rng, rl)
        return {"engine": "calsim", "config": cfg, "env": env, "ops": ops, "sim_seed": rng.randrange(2 ** 31),
                "ctor_probe": rng.random() < 0.2}

    def ctor_combinations(self, scn, res):
        """exactly one of samplers / scheduler must be accepted"""
        from black_it.calibrator import Calibrator
        from black_it.schedulers.round_robin import RoundRobinScheduler
        import numpy as np
        cfg = scn["config"]
        samplers = [calsim.make_sampler(s, 1) for s in cfg["lineup"]]
        kw = dict(loss_function=calsim.make_loss(cfg["loss"]), real_data=np.zeros((cfg["N"], cfg["model"]["D"])),
                  model=lambda t, n, s: np.zeros((n, cfg["model"]["D"])), parameters_bounds=cfg["space"]["bounds"],
                  parameters_precision=cfg["space"]["precision"], ensemble_size=1, verbose=False, n_jobs=1)
        for name, args, ok in (("neither", {}, False), ("both", {"samplers": samplers, "scheduler": RoundRobinScheduler(samplers)}, False),
                               ("samplers", {"samplers": samplers}, True), ("scheduler", {"scheduler": RoundRobinScheduler(samplers)}, True)):
            try:
                with contextlib.redirect_stdout(io.StringIO()):
                    Calibrator(**kw, **args)
                got = "accepted"
            except ValueError:
                got = "ValueError"
            except Exception as e:  # noqa: BLE001
                got = type(e).__name__
            if ok and got != "accepted":
                res.add("constructor", name, f"Calibrator({name}=...) alone was rejected with {got}")
            if not ok and got != "ValueError":
                res.add("constructor", name, f"Calibrator with {name} of samplers/scheduler: expected ValueError, got {got}")
            res.stats["constructor-combinations"] += 1

    def run(self, scn):
        res = Result()
        cfg = scn["config"]
        sim = calsim.CalSim(scn).run()
        rl = cfg["scheduler"]["kind"] == "rl"
        done = sim.completed_batches() if sim.cal is not None else []
        fatal = [r for r in sim.op_results if r.get("fatal")]
        for r in fatal:
            res.add("op-failed", r["exc"][0], f"operation {r['op']} failed: {r['exc']}")
        if sim.cal is not None and not fatal:
            n_s = len(sim.cal.scheduler.samplers)
            sizes = [s.batch_size for s in sim.cal.scheduler.samplers]
            tags = getattr(sim, "supplied_tags", None)
            if not rl and n_s != len(cfg["lineup"]):
                res.add("round-robin-order", "line-up-length", f"{len(cfg['lineup'])} samplers were supplied, the scheduler cycles over {n_s}")
            elif not rl and tags is not None:
                res.stats["probe:repeated-object-in-line-up"] += 1
                for i, b in enumerate(done):
                    want = tags[i % len(tags)]
                    if b.tag != want:
                        res.add("round-robin-order", "position", f"batch {i} was produced by the sampler object supplied at position {b.tag} "
                                                                 f"({b.cls}); round-robin over the supplied line-up (objects {tags}) prescribes the object of "
                                                                 f"position {i % len(tags)} (object {want}); sequence {[x.tag for x in done]}")
                        break
                    if len(b.returned) != b.bs:
                        res.add("round-robin-order", "batch-size", f"batch {i} has {len(b.returned)} rows, its sampler has batch size {b.bs}")
                        break
            elif not rl:
                for i, b in enumerate(done):
                    if b.pos != i % n_s:
                        res.add("round-robin-order", "position", f"batch {i} of the calibration (over its whole life; ops {scn['ops']}) was produced by "
                                                                 f"sampler #{b.pos} ({b.cls}); round-robin over {n_s} samplers prescribes #{i % n_s}; "
                                                                 f"sequence {[x.pos for x in done]}")
                        break
                    if len(b.returned) != sizes[b.pos] or b.bs != sizes[b.pos]:
                        res.add("round-robin-order", "batch-size", f"batch {i} has {len(b.returned)} rows, sampler #{b.pos} has batch size {sizes[b.pos]}")
                        break
            else:
                supplied = len(cfg["lineup"])
                has_h = any(s["cls"] == "halton" for s in cfg["lineup"])
                if n_s != supplied + (0 if has_h else 1):
                    res.add("rl-sampler-set", "augmented", f"{supplied} samplers supplied ({'with' if has_h else 'without'} a Halton sampler) but the scheduler holds {n_s}")
                if done:
                    b0 = done[0]
                    if b0.cls != "HaltonSampler":
                        res.add("rl-bootstrap", "first-batch", f"first batch of the calibration produced by {b0.cls}, not by the Halton bootstrap sampler")
                    elif has_h and b0.pos >= supplied:
                        res.add("rl-bootstrap", "added-although-present", f"a Halton sampler was supplied but the first batch was produced by "
                                                                          f"sampler #{b0.pos}, which is not one of the {supplied} supplied samplers")
                # every later batch (including failed/aborted ones: they consumed an action too) by a sampler the agent chose
                # every attempt up to and including the first *completed* batch is a bootstrap attempt (a failed first batch
                # is retried with the bootstrap sampler); everything after it must be the agent's choice
                first_done = next((k for k, b in enumerate(sim.batches) if done and b is done[0]), len(sim.batches) - 1)
                for b in sim.batches[:first_done + 1]:
                    if b.cls != "HaltonSampler":
                        res.add("rl-bootstrap", "first-batch", f"a bootstrap attempt was made with {b.cls}, not with the Halton sampler")
                used = [b.pos for b in sim.batches[first_done + 1:]]
                pol = list(sim.policy_log)
                j = 0
                for k, p in enumerate(used):
                    while j < len(pol) and pol[j] != p:
                        j += 1
                    if j >= len(pol):
                        res.add("rl-not-agents-choice", "position",
                                f"batch {k + 1} was produced by sampler #{p} but the agent's policy values {sim.policy_log} do not contain the "
                                f"used positions {used} as an in-order subsequence")
                        break
                    j += 1
                # ... and, more precisely, the choice the agent made *for that batch*: the value of the latest policy call that
                # had returned when the sampler was designated (bootstrap designations excluded)
                latest = None
                n_boot = first_done + 1
                seen_next = 0
                for kind, val in sim.timeline:
                    if kind == "policy":
                        latest = val
                    else:
                        seen_next += 1
                        if seen_next > n_boot and latest is not None and val != latest and not res.violations:
                            res.add("rl-not-latest-choice", "stale-action",
                                    f"designation #{seen_next} picked sampler #{val} while the agent's most recent choice at that moment was #{latest} "
                                    f"(policy values {sim.policy_log}, designated {[v for k2, v in sim.timeline if k2 == 'next']})")
                            break
                for b in sim.batches:
                    if b.pos is None or b.pos >= n_s:
                        res.add("rl-sampler-set", "foreign", f"a batch was produced by a sampler that is not in scheduler.samplers ({b.cls})")
        if scn.get("ctor_probe"):
            self.ctor_combinations(scn, res)
        res.stats.update(sim.stats)
        res.stats["batches"] += len(done)
        if len(done) >= 3:
            res.key = jdigest([cfg["scheduler"]["kind"], [(s["cls"], s["batch_size"]) for s in cfg["lineup"]], scn["ops"]])
        if cfg.get("convergence_precision") is not None and any(r["op"][0] == "calibrate" and r.get("exc") is None and r.get("n_batches", 0) < r["op"][1] for r in sim.op_results):
            res.stats["probe:session-ended-by-convergence"] += 1
        if rl and len([o for o in scn["ops"] if o[0] == "calibrate"]) > 1:
            res.stats["probe:rl-multi-session"] += 1
        res.digest = sim.digest()
        res.sample = {"scheduler": cfg["scheduler"], "lineup": [(s["cls"], s["batch_size"]) for s in cfg["lineup"]], "ops": scn["ops"],
                      "positions": [b.pos for b in done], "policy": sim.policy_log[:20]}
        return res

    def shrink(self, scn):
        if scn.get("ctor_probe"):
            c = copy.deepcopy(scn)
            c["ops"] = [["calibrate", 1]]
            yield c
        yield from calsim.shrink_scn(scn)


CHECK = C09()
