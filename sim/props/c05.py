"""C05 - resuming from a checkpoint equals never having stopped.

Crash-point enumeration: for a sampled round-robin configuration and n batches, EVERY labelled
cutting of the n batches is executed - each of the n-1 gaps is one of
  '-' no cut, 'a' a second calibrate() on the live object, 'b' crash between batches + restore from
  the folder, 'c' crash inside the next batch (a model call never returns) + restore -
and the final history must be bitwise the uninterrupted twin's.  For larger n cuttings are sampled.
"""
from __future__ import annotations

import copy
import itertools
import random

from sim import calsim
from sim.core import Check, Result, derive_seed, jdigest

LABELS = "-abc"


def ops_for(labels, n, cfg, salt):
    """op list for one labelled cutting of n batches"""
    rng = random.Random(derive_seed("c05-cut", salt, labels))
    sizes = [s["batch_size"] for s in cfg["lineup"]]
    if cfg["scheduler"]["kind"] == "rl":
        sizes = [1]          # which sampler runs next is the agent's choice: a crash at the first model call of the batch always lands inside it
    E = cfg["ensemble"]  # noqa: N806
    # segments: (number of batches, label of the boundary that ends it, index of the first batch after it)
    segs = []
    seg = 0
    for i in range(1, n + 1):
        seg += 1
        lab = labels[i - 1] if i <= n - 1 else "end"
        if lab != "-":
            segs.append((seg, lab, i))
            seg = 0
    ops = []
    prev = None
    for length, lab, nxt in segs:
        if prev == "d":
            # the whole segment is run by a brand-new interpreter (which then dies too); we restore what it left
            ops.append(["fresh_continue", length])
        else:
            ops.append(["calibrate", length])
        if lab == "b":
            ops.append(["crash"])
            ops.append(["restore"])
        elif lab == "c":
            nxt_bs = sizes[nxt % len(sizes)]       # batch `nxt` (0-based) is the next one
            ops.append(["calibrate_crash", 1, rng.randrange(nxt_bs * E)])
            ops.append(["restore"])
        elif lab == "d":
            ops.append(["crash"])
        prev = lab
    return ops


class C05(Check):
    pid = "C05"
    level = "fault_enumeration"
    engine = "calsim"
    rule = ("one evaluation = one sampled round-robin configuration (any of the nine samplers, any loss) with n batches for which ALL "
            "4^(n-1) labelled cuttings (no cut / plain second calibrate() / crash+restore / crash inside the next batch+restore) are "
            "executed (n <= 4 quick, n <= 5 thorough) - or, for n up to 14, 24 sampled cuttings biased to cut right after stateful "
            "samplers - each compared bitwise with the uninterrupted twin; distinct_nontrivial counts distinct (configuration, "
            "labelling) with at least one cut")
    assumptions = ["Calibrator, checkpointing, samplers: real code on a real scratch folder; crash = the live object and every reference are "
                   "dropped, ambient RNG state perturbed, only the folder survives; a sample of restores in a truly fresh interpreter is "
                   "not taken (in-process restore only)", "RL line-ups take part with a greedy (eps = 0) agent only: with eps > 0 every cut makes the agent draw one more random number for the action it had pending, so equality across cuts is not defined"]
    quick = {"runs": 40, "wall": 420, "item_timeout": 900}
    thorough = {"runs": 3000, "wall": 900, "item_timeout": 1200}

    def gen(self, rng, tier, i):
        cfg = calsim.gen_config(rng, rl_prob=0.0, max_bs=3, feature=calsim.SAMPLER_KINDS[i % len(calsim.SAMPLER_KINDS)])
        cfg["ensemble"] = rng.randint(1, 2)
        cfg["N"] = 12
        for sp in cfg["lineup"]:
            # constructor defaults (objects of the defining module, not copies that went through JSON) for more of the options:
            # what a restore brings back is a copy, and must behave like the original
            if sp["cls"] == "gp" and "acquisition" in sp["opts"] and rng.random() < 0.5:
                del sp["opts"]["acquisition"], sp["opts"]["jitter"]
        if cfg["sim_length"] is not None:
            cfg["sim_length"] = 12 if cfg["sim_length"] == 12 or cfg["loss"]["cls"] not in ("msm", "gsl", "likelihood") else 17
        heavy = sum(1 for s in cfg["lineup"] if s["cls"] in ("cors", "gp"))
        big = tier == "thorough" and rng.random() < 0.25
        if big:
            n = rng.randint(6, 14)
            mode = "sampled"
        else:
            costly = sum(1 for s in cfg["lineup"] if s["cls"] in ("cors", "gp", "xgb", "rf"))
            n = rng.choice([2, 3, 3, 4, 4]) if not costly else rng.choice([2, 3, 3] if not heavy else [2, 2, 3])
            if tier == "thorough" and not costly and rng.random() < 0.3:
                n = 5
            mode = "all"
        if rng.random() < 0.15 and mode == "all":
            # RL scheduler with a greedy agent (eps = 0): its choices are a function of the rewards alone, so cutting the run
            # into sessions (each cut drops the agent's pending action) must not change anything either
            cfg["lineup"] = calsim.gen_lineup(rng, n=rng.randint(1, 3), kinds=["uniform", "halton", "rseq", "pso", "bestbatch"], max_bs=3, rl=True)
            cfg["scheduler"] = {"kind": "rl", "agent": {"kind": "eps", "eps": 0.0, "alpha": rng.choice([-1, 0.1, 0.5]), "init": rng.choice([0.0, 1.0, 0.2])}}
            n = rng.choice([3, 4])
        scn = {"engine": "calsim", "config": cfg, "env": {"folder": True, "n_jobs": rng.choice([1, 1, 2])}, "n": n, "mode": mode,
               "cut_seed": rng.randrange(2 ** 31), "sim_seed": rng.randrange(2 ** 31), "ops": []}
        feat = calsim.SAMPLER_KINDS[i % len(calsim.SAMPLER_KINDS)]
        if scn["env"]["n_jobs"] == 1 and (feat in ("halton", "rseq", "pso", "cors", "gp") or rng.random() < 0.2):
            scn["fresh"] = True
            if feat in ("halton", "rseq", "pso", "cors", "gp") and mode == "all" and cfg["scheduler"]["kind"] == "rr":
                # short line-up so that the featured stateful sampler gets a second turn inside the run: its state then has
                # to survive a pickle written by one interpreter and read by another
                keep = [s for s in cfg["lineup"] if s["cls"] == feat][:1]
                first = cfg["lineup"][0] if cfg["lineup"][0]["cls"] != feat else calsim.gen_sampler_spec(rng, rng.choice(["uniform", "rseq", "halton"]), 2)
                first["batch_size"] = max(first["batch_size"], max([s["batch_size"] for s in keep] + [1]), 2 if feat == "gp" else 1)
                if feat == "gp" and keep:
                    # enough candidates and history for the two acquisition rules to rank differently
                    keep[0]["opts"]["candidate_pool_size"] = rng.randint(80, 250)
                    first["batch_size"] = max(first["batch_size"], 4)
                    if rng.random() < 0.6:
                        keep[0]["opts"].pop("acquisition", None)       # constructor default
                        keep[0]["opts"].pop("jitter", None)
                cfg["lineup"] = [first] + keep
                if len(cfg["space"]["precision"]) < 2:
                    cfg["space"] = calsim.gen_space(rng, rng.randint(2, 4))
                scn["n"] = 4 if feat not in ("cors", "gp") else 3
        return scn

    def labellings(self, scn):
        n = scn["n"]
        if scn.get("only"):
            return [scn["only"]]
        extra = []
        from sim.core import subprocess_ok
        if scn.get("fresh") and subprocess_ok():
            # a few cuttings in which the continuation runs in a brand-new interpreter ('d')
            frng = random.Random(scn["cut_seed"] + 1)
            extra.append("d" * (n - 1))          # every later batch is run by its own brand-new interpreter
            x = "".join(frng.choice("d-bd") for _ in range(n - 1))
            if "d" in x and x not in extra:
                extra.append(x)
        if scn["mode"] == "all":
            return ["".join(p) for p in itertools.product(LABELS, repeat=n - 1)] + extra
        rng = random.Random(scn["cut_seed"])
        stateful = {"pso", "cors", "halton", "rseq", "gp", "rf", "xgb"}
        kinds = [s["cls"] for s in scn["config"]["lineup"]]
        out = []
        for _ in range(24):
            lab = []
            for gap in range(1, n):
                prev = kinds[(gap - 1) % len(kinds)]
                p = 0.45 if prev in stateful else 0.2
                lab.append(rng.choice("abc") if rng.random() < p else "-")
            out.append("".join(lab))
        return sorted(set(out)) + extra

    def run(self, scn):
        res = Result()
        n = scn["n"]
        cfg = scn["config"]
        twin = calsim.CalSim(scn, ops=[["calibrate", n]], label="uninterrupted").run()
        digests = [twin.digest()]
        t = twin.op_results[0]
        if t["exc"] is not None:
            res.stats["baseline-raised"] += 1
            res.digest = jdigest(digests)
            res.sample = {"baseline": t["exc"]}
            return res
        want = t["snap"]
        if cfg["scheduler"]["kind"] == "rl":
            res.stats["probe:rl-greedy-agent-scenario"] += 1
        cfgkey = jdigest(cfg)[:10]
        for lab in self.labellings(scn):
            if set(lab) <= {"-"}:
                continue
            ops = ops_for(lab, n, cfg, scn["cut_seed"])
            sim = calsim.CalSim(scn, ops=ops, label=lab).run()
            digests.append(sim.digest())
            res.stats["cuttings-executed"] += 1
            res.stats["restores-performed"] += sim.stats["restore"]
            for ch in lab:
                if ch != "-":
                    res.stats[{"a": "cut:second-calibrate", "b": "crash@between-batches+restore", "c": "crash@inside-batch+restore",
                               "d": "crash+continue-in-fresh-interpreter"}[ch]] += 1
            kinds = "".join(sorted(set(lab) - {"-"}))
            bad = [r for r in sim.op_results if r["exc"] is not None and not r.get("crashed")]
            if bad:
                res.add("resume-raises", f"{kinds}:{bad[0]['exc'][0]}", f"cutting {lab!r} of {n} batches (ops {ops}): operation {bad[0]['op']} raised {bad[0]['exc']}")
                continue
            got = sim.snapshot_final
            d = calsim.hist_equal(want, got) if got is not None else ["no-final-state"]
            if d:
                # where does the history first differ?
                first = None
                if got is not None:
                    m = min(want["n"], got["n"])
                    for r in range(m):
                        if want["params"][r].tobytes() != got["params"][r].tobytes() or want["losses"][r].tobytes() != got["losses"][r].tobytes() \
                                or want["series"][r].tobytes() != got["series"][r].tobytes():
                            first = r
                            break
                res.add("resumed-history-differs", kinds,
                        f"cutting {lab!r} of {n} batches (ops {ops}): final history differs from the uninterrupted run in {d}; rows "
                        f"{got['n'] if got else None} vs {want['n']}, first differing row {first} "
                        f"(batch {int(want['batch_num'][first]) if first is not None else '?'}), line-up {[s['cls'] for s in cfg['lineup']]}")
            else:
                res.extra_keys.append(f"{cfgkey}:{lab}")
        res.digest = jdigest(digests)
        res.sample = {"lineup": [(s["cls"], s["batch_size"]) for s in cfg["lineup"]], "loss": cfg["loss"]["cls"], "ensemble": cfg["ensemble"],
                      "n": n, "mode": scn["mode"], "example_cutting": {"labels": "b" * (n - 1), "ops": ops_for("b" * (n - 1), n, cfg, scn["cut_seed"])}}
        return res

    def shrink(self, scn):
        # first isolate one failing cutting, then simplify it and the configuration
        if not scn.get("only"):
            for lab in self.labellings(scn):
                if set(lab) <= {"-"}:
                    continue
                c = copy.deepcopy(scn)
                c["only"] = lab
                yield c
            return
        lab = scn["only"]
        for i, ch in enumerate(lab):
            if ch != "-":
                c = copy.deepcopy(scn)
                c["only"] = lab[:i] + "-" + lab[i + 1:]
                if set(c["only"]) - {"-"}:
                    yield c
            if ch in "cd":
                c = copy.deepcopy(scn)
                c["only"] = lab[:i] + "b" + lab[i + 1:]
                yield c
        if scn["n"] > 2:
            c = copy.deepcopy(scn)
            c["n"] -= 1
            c["only"] = lab[:-1]
            if set(c["only"]) - {"-"}:
                yield c
        for c in calsim.shrink_scn(scn):
            if c["env"].get("folder") and len(c["config"]["lineup"]) >= 1:
                yield c


CHECK = C05()
