"""C13 - quasi-random samplers emit the true Halton and R sequences, without gaps.

One sampler object lives through an op sequence: batch(n) / reseed(x) / restart (pickle round
trip, what a checkpoint does).  Pre-snap values are observed at the `digitize_data` name of the
sampler's module (seam: recording pass-through); references are exact rational radical inverses
with an independent prime sieve, and an independent 50-digit solution of x^(d+1) = x + 1.
"""
from __future__ import annotations

import copy
import random

import numpy as np

from sim.compsim import (circ_dist, first_primes, invert_base2, make_space, quiet, radical_inverse, restart,
                         rseq_alpha)
from sim.core import Check, Discard, Result, jdigest
from sim.seams import Seams, import_all_black_it

TOL_H = 1e-12
TOL_R = 1e-9
PRIMES = first_primes(64)


def unit_space(d, prec=0.25):
    return make_space({"bounds": [[0.0] * d, [1.0] * d], "precision": [prec] * d})


def box_space(lo, hi, div=4.0):
    # div not an integer: the last grid value lies below the upper bound (the sequences live on the bounds, not on the grid span)
    return make_space({"bounds": [list(lo), list(hi)], "precision": [(h - l) / div for l, h in zip(lo, hi)]})


class C13(Check):
    pid = "C13"
    level = "exploration"
    engine = "compsim"
    rule = ("one evaluation = one op sequence (batch sizes, reseeds, pickle restarts) on one HaltonSampler or RSequenceSampler "
            "of 1-40 dims (unit cube, or a box with non-zero lower bounds whose affine map is undone) plus twin objects, or one probe of the public halton() helper at start indices biased to carries; every "
            "emitted point is compared with the reference sequence; non-trivial = at least two batches on the same object; "
            "distinct = distinct (kind, dims, op-kind sequence, batch sizes)")
    assumptions = ["HaltonSampler/RSequenceSampler/halton(): real code", "pre-snap values observed through a pass-through at the module's digitize_data name; "
                   "if that seam is not engaged the run falls back to snapped values on a 1e-6 grid (dims<=3)",
                   "Halton start index recovered from the first point's base-2 coordinate; both 0- and 1-based readings of 'k-th point' accepted"]
    quick = {"runs": 4000, "wall": 150, "item_timeout": 100}
    thorough = {"runs": 60000, "wall": 600, "item_timeout": 60}

    def gen(self, rng, tier, i):
        u = rng.random()
        if u < 0.15:
            # public helper probe
            p = rng.choice(PRIMES[:40])
            k = rng.randint(1, 16)
            carry = max(0, min(2 ** 16 + 2 ** 12 - 1, p ** rng.randint(1, 10) - rng.randint(0, 2)))
            start = rng.choice([carry % (2 ** 16 + 2 ** 12), rng.randrange(0, 2 ** 16 + 2 ** 12), rng.randrange(0, 64)])
            return {"engine": "compsim", "mode": "helper", "dims": rng.randint(1, 40), "start": start, "n": rng.randint(1, 12)}
        kind = "halton" if u < 0.6 else "rseq"
        d = rng.choice([1, 2, 3, rng.randint(1, 40), rng.randint(1, 40)])
        ops = []
        for _ in range(rng.randint(2, 7)):
            v = rng.random()
            if v < 0.6:
                ops.append(["batch", rng.randint(1, 9)])
            elif v < 0.8:
                ops.append(["restart"])
            else:
                ops.append(["reseed", rng.randrange(2 ** 31)])
        ops.append(["batch", rng.randint(1, 5)])
        scn = {"engine": "compsim", "mode": "sampler", "kind": kind, "dims": d, "seed": rng.randrange(2 ** 31),
               "bs": rng.randint(1, 6), "ops": ops}
        if rng.random() < 0.5:
            # other sampler objects of the same class live in the same process (a calibrator usually holds several):
            # they are used, on spaces of other dimensions, before and between the operations on ours
            scn["siblings"] = [[rng.randint(1, 12), rng.randint(1, 4)] for _ in range(rng.randint(1, 2))]
        if kind == "halton" and rng.random() < 0.03:
            # a long run: the cursor passes 2^16 (the top of the start-index range) and must keep counting
            scn["dims"] = rng.randint(1, 3)
            ops.insert(rng.randrange(0, len(ops)), ["skip", rng.randint(12000, 24000)])
        if rng.random() < 0.06:
            # the same object is later used on a space of another dimension
            ops.insert(rng.randrange(1, len(ops)), ["dims", rng.randint(1, 12)])
        if rng.random() < 0.3:
            scn["unit_prec"] = rng.choice([0.3, 0.0007, 0.125, 0.4])      # the grid need not end on the upper bound
        if rng.random() < 0.3:
            # a search space that is not the unit cube: the unit-cube points are recovered from the pre-snap values by
            # undoing the affine map (lower + u * (upper - lower)); the same SearchSpace object serves every batch
            lo = [rng.choice([-5.0, -0.5, 0.5, 1.0, 3.0, 100.0]) for _ in range(scn["dims"])]
            scn["box"] = [lo, [l + rng.choice([0.5, 1.0, 2.0, 3.0, 8.0]) for l in lo]]
            scn["box_div"] = rng.choice([4.0, 4.0, 4.3, 2.5, 7.77])
        return scn

    # ----------------------------------------------------------------------------------------
    def make(self, kind, bs, seed):
        from black_it.samplers.halton import HaltonSampler
        from black_it.samplers.r_sequence import RSequenceSampler
        return (HaltonSampler if kind == "halton" else RSequenceSampler)(batch_size=bs, random_state=seed)

    def check_halton_points(self, pts, t0, d, res, where):
        """pts: consecutive pre-snap points, the first being index t0"""
        for k, row in enumerate(pts):
            for j in range(d):
                ref = radical_inverse(t0 + k, PRIMES[j])
                if abs(row[j] - ref) > TOL_H:
                    res.add("halton-value", "base2" if j == 0 else "other-base",
                            f"{where}: point #{k} (sequence index {t0 + k}) coordinate {j} (base {PRIMES[j]}) is {row[j]!r}, radical inverse is {ref!r}")
                    return False
        return True

    def run_helper(self, scn, res):
        from black_it.samplers.halton import halton
        d, start, n = scn["dims"], scn["start"], scn["n"]
        out = halton(sample_size=n, bases=np.array(PRIMES[:d]), n_start=start)
        if out.shape != (n, d):
            res.add("helper-shape", "halton()", f"halton({n}, first {d} primes, {start}) returned shape {out.shape}")
            return
        # the helper's k-th point (k=1..) is the radical inverse of n_start + k
        for k in range(n):
            for j in range(d):
                ref = radical_inverse(start + 1 + k, PRIMES[j])
                if abs(out[k, j] - ref) > TOL_H:
                    res.add("helper-value", "halton()", f"halton(n_start={start}) point {k} base {PRIMES[j]}: {out[k, j]!r} vs radical inverse {ref!r}")
                    return
        res.key = f"helper:{d}:{start}:{n}"

    def run_sampler(self, scn, res):
        kind, d = scn["kind"], scn["dims"]
        import black_it.samplers.halton as hmod
        import black_it.samplers.r_sequence as rmod
        from black_it.utils.base import digitize_data
        seams = Seams()
        captured = []

        def rec(data, grid):
            captured.append(np.array(data, copy=True))
            return digitize_data(data, grid)
        engaged = seams.replace_global("digitize", digitize_data, rec)
        try:
            box = scn.get("box")
            space = box_space(*box, div=scn.get("box_div", 4.0)) if box else unit_space(d, scn.get("unit_prec", 0.25))
            lo_w = [np.array(box[0]), np.array(box[1]) - np.array(box[0])] if box else None
            empty_p, empty_l = np.zeros((0, d)), np.zeros(0)
            if box:
                res.stats["non-unit-search-space"] += 1

            def draw(obj, n):
                captured.clear()
                out = obj.sample_batch(n, space, empty_p, empty_l)
                if np.asarray(out).shape != (n, d):
                    res.add("shape", kind, f"sample_batch({n}) returned shape {np.asarray(out).shape}")
                    raise Discard("shape")
                if not captured:
                    res.stats["seam_not_engaged:digitize"] += 1
                    raise Discard("digitize seam not engaged")
                pre = captured[-1]
                if pre.shape != (n, d):
                    raise Discard("unexpected pre-snap shape")
                if lo_w is not None:
                    pre = (pre - lo_w[0]) / lo_w[1]
                return pre
            for sd, sn in scn.get("siblings", []):
                sib = self.make(kind, 1, 777)
                sib.sample_batch(sn, unit_space(sd), np.zeros((0, sd)), np.zeros(0))
                res.stats["sibling-objects-used"] += 1
            obj = self.make(kind, scn["bs"], scn["seed"])
            twin_ctor = self.make(kind, scn["bs"], scn["seed"])      # construct <-> construct
            stream = []          # points since the last (re)seed
            origin = ("ctor", scn["seed"])
            t0 = None
            first_pt = None
            alpha = rseq_alpha(d) if kind == "rseq" else None
            n_batches = 0
            sizes = []

            def judge_batch(pre, where):
                nonlocal t0, first_pt
                if kind == "halton":
                    if t0 is None:
                        u0 = float(pre[0, 0])
                        t0 = invert_base2(u0 if lo_w is None else round(u0 * 2 ** 24) / 2 ** 24)
                        if t0 is None or not (20 <= t0 <= 2 ** 16):
                            res.add("halton-start", "range", f"{where}: first point's base-2 coordinate {pre[0, 0]!r} corresponds to sequence index {t0}, outside [20, 2^16]")
                            return False
                    return self.check_halton_points(pre, t0 + len(stream), d, res, where)
                if first_pt is None:
                    first_pt = pre[0].copy()
                    if not ((first_pt >= 0).all() and (first_pt < 1).all()):
                        res.add("rseq-range", "unit-cube", f"{where}: point {first_pt} outside [0,1)")
                        return False
                base = len(stream)
                for k, row in enumerate(pre):
                    ref = (first_pt + (base + k) * alpha) % 1.0
                    if (circ_dist(row, ref) > TOL_R).any():
                        j = int(np.argmax(circ_dist(row, ref)))
                        res.add("rseq-step", "advance", f"{where}: point #{base + k} since the seed, coordinate {j}: {row[j]!r}, "
                                                        f"offset + {base + k}*phi^-{j + 1} mod 1 = {ref[j]!r}")
                        return False
                return True
            for oi, op in enumerate(scn["ops"]):
                if op[0] == "batch":
                    pre = draw(obj, op[1])
                    if not judge_batch(pre, f"op {oi} {op} after {origin}"):
                        return
                    stream.extend(pre)
                    n_batches += 1
                    sizes.append(op[1])
                elif op[0] == "restart":
                    obj = restart(obj)
                    res.stats["restart@sampler"] += 1
                elif op[0] == "skip":
                    # one very large batch: only its first and last points are judged, the batches after it show whether the
                    # sequence went on from the right index
                    pre = draw(obj, op[1])
                    head, tail = pre[:2], pre[-2:]
                    if not judge_batch(head, f"op {oi} {op} (first points) after {origin}"):
                        return
                    stream.extend(pre[:-2])
                    if not judge_batch(tail, f"op {oi} {op} (last points) after {origin}"):
                        return
                    stream.extend(tail)
                    n_batches += 1
                    res.stats["probe:halton-cursor-beyond-2^16"] += 1 if (t0 or 0) + len(stream) > 2 ** 16 else 0
                elif op[0] == "dims":
                    # same object, another space: within the new dimension the sequence rule must hold again
                    if stream and not self.twin_equal(kind, scn, origin, stream, draw, res, twin_ctor):
                        return
                    d = op[1]
                    space = unit_space(d)
                    lo_w = None
                    empty_p, empty_l = np.zeros((0, d)), np.zeros(0)
                    alpha = rseq_alpha(d) if kind == "rseq" else None
                    if kind == "halton" and t0 is not None:
                        t0 = t0 + len(stream)          # the index keeps counting
                    first_pt = None
                    stream = []
                    origin = ("dims", d)
                    res.stats["dimension-switch@sampler"] += 1
                elif op[0] == "reseed":
                    # finish the current stream: a twin with the same origin asked for everything at once
                    if stream and not self.twin_equal(kind, scn, origin, stream, draw, res, twin_ctor):
                        return
                    obj.random_state = op[1]
                    res.stats["reseed@sampler"] += 1
                    origin = ("reseed", op[1])
                    stream = []
                    t0 = None
                    first_pt = None
            if stream and not self.twin_equal(kind, scn, origin, stream, draw, res, twin_ctor):
                return
            if n_batches >= 2:
                res.key = f"{kind}:{d}:{[o[0][0] for o in scn['ops']]}:{sizes}"
        finally:
            seams.undo()
        res.stats["seam_engaged:digitize"] += 1 if engaged else 0

    def twin_equal(self, kind, scn, origin, stream, draw, res, twin_ctor):
        """A second object with the same seed history, asked for one batch of the total size, emits bitwise the same points."""
        if origin[0] == "dims" or len(stream) > 5000:
            return True
        if origin[0] == "ctor":
            twin = twin_ctor
        else:
            twin = self.make(kind, scn["bs"], 12345)
            twin.random_state = origin[1]                      # reseed <-> reseed
        pre = draw(twin, len(stream))
        got = np.array(stream)
        if pre.tobytes() != got.tobytes():
            k = int(np.argmax((pre != got).any(axis=1)))
            res.add("continuity", kind, f"{len(stream)} points drawn in several batches differ from one batch of {len(stream)} "
                                        f"on a twin with the same seed ({origin}); first difference at point {k}: {got[k][:3]} vs {pre[k][:3]}")
            return False
        return True

    def run(self, scn):
        res = Result()
        with quiet():
            import_all_black_it()
            if scn["mode"] == "helper":
                self.run_helper(scn, res)
            else:
                self.run_sampler(scn, res)
        res.digest = jdigest([res.violations, res.key, dict(res.stats)])
        res.sample = {k: scn[k] for k in scn if k not in ("verif_seed", "run_index", "property", "expect")}
        return res

    def shrink(self, scn):
        if scn.get("mode") != "sampler":
            if scn.get("n", 1) > 1:
                c = copy.deepcopy(scn)
                c["n"] -= 1
                yield c
            if scn.get("dims", 1) > 1:
                c = copy.deepcopy(scn)
                c["dims"] -= 1
                yield c
            return
        for i in range(len(scn["ops"])):
            c = copy.deepcopy(scn)
            del c["ops"][i]
            if c["ops"]:
                yield c
        for i, op in enumerate(scn["ops"]):
            if op[0] == "batch" and op[1] > 1:
                c = copy.deepcopy(scn)
                c["ops"][i][1] = op[1] - 1
                yield c
        if scn["dims"] > 1:
            for nd in (1, scn["dims"] // 2, scn["dims"] - 1):
                if 1 <= nd < scn["dims"]:
                    c = copy.deepcopy(scn)
                    c["dims"] = nd
                    if c.get("box"):
                        c["box"] = [c["box"][0][:nd], c["box"][1][:nd]]
                    yield c
        if scn.get("box"):
            c = copy.deepcopy(scn)
            del c["box"]
            yield c


CHECK = C13()
