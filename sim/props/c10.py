"""C10 - the RL scheduler-agent exchange is correct under every thread interleaving."""
from __future__ import annotations

import copy
import math

from sim.core import Check, Result, jdigest
from sim.rlsim import RLRun, reference_learns


def gen_losses(rng, n_batches, style):
    out = []
    level = rng.choice([1.0, 5.0, 100.0])
    for _ in range(n_batches):
        bs = rng.randint(1, 3)
        if style == "improving":
            level *= rng.choice([0.5, 0.9, 0.99])
        elif style == "flat":
            pass
        elif style == "worse":
            level *= rng.choice([1.0, 1.5])
        else:
            level *= rng.choice([0.5, 1.0, 1.3, 0.8])
        out.append([round(level * (1 + 0.1 * rng.random() * j), 6) for j in range(bs)])
    return out


def gen_sched(rng, tier):
    mode = rng.choice(["random", "random", "random", "pct", "pct", "mainfirst", "othersfirst"])
    s = {"mode": mode, "seed": rng.randrange(2 ** 31)}
    if mode == "random":
        s["p_line"] = rng.choice([0.0, 0.0, 0.05, 0.2, 0.5])
    if mode == "pct":
        s["pct_depth"] = rng.randint(1, 4)
        s["pct_horizon"] = rng.choice([50, 200, 600])
        s["trace"] = rng.random() < 0.5
    return s


class C10(Check):
    pid = "C10"
    level = "exploration"
    engine = "rlsim"
    rule = ("one evaluation = one seeded schedule of a generated scenario (1-3 sessions x 1-3 batches, thorough up to 4x4; "
            "scripted or epsilon-greedy agent; session via context manager or explicit calls) executed on two real threads "
            "under the baton scheduler, plus two reference schedules (main-first, agent-first) of the same scenario for the "
            "schedule-independence clause; distinct = distinct (scenario, sync-level interleaving) with at least one thread switch")
    assumptions = [
        "RLScheduler, CalibrationEnv/MABCalibrationEnv, MABEpsilonGreedy: real code on real threads",
        "threading.Thread and queue.Queue replaced by baton-scheduled stand-ins (semantics: FIFO, unbounded, blocking get)",
        "pre-emption at sync operations and at line granularity inside black_it/schedulers/*; finer interleavings assumed unobservable under the GIL",
        "the calibration loop is played by the harness (get_next_sampler/update with scripted losses)",
    ]
    quick = {"runs": 2500, "wall": 150, "item_timeout": 300}
    thorough = {"runs": 150000, "wall": 900, "item_timeout": 600}

    def gen(self, rng, tier, i):
        scn = self.gen_random(rng, tier, i)
        if rng.random() < (0.02 if tier == "quick" else 0.01):
            # systematic part: a small scenario under EVERY schedule with at most two pre-emptions
            cfg = scn["config"]
            cfg["sessions"] = [s[:2] for s in cfg["sessions"][:2]]
            scn["pb"] = {"trace": rng.random() < 0.5, "max_pairs": 250 if tier == "quick" else 6000, "pair_seed": rng.randrange(2 ** 31)}
        return scn

    def gen_random(self, rng, tier, i):
        big = tier == "thorough" and rng.random() < 0.3
        n_sess = rng.randint(1, 4 if big else 3)
        style = rng.choice(["improving", "flat", "worse", "mixed", "mixed"])
        sessions = [gen_losses(rng, rng.randint(1, 4 if big else 3), style) for _ in range(n_sess)]
        samplers = [rng.choice("hur") for _ in range(rng.randint(1, 4))]
        if samplers.count("h") > 1:
            samplers = [c if c != "h" else "u" for c in samplers[:-1]] + ["h"]
        if rng.random() < 0.5:
            agent = {"kind": "scripted", "script": [rng.randrange(6) for _ in range(rng.randint(1, 8))]}
        else:
            agent = {"kind": "eps", "eps": rng.choice([0.0, 0.1, 0.5, 1.0]), "alpha": rng.choice([-1, 0.1, 0.5]),
                     "init": rng.choice([0.0, 1.0]), "seed": rng.randrange(1000)}
        cfg = {"samplers": samplers, "agent": agent, "sessions": sessions, "use_ctx": rng.random() < 0.6,
               "sched_seed": rng.randrange(1000), "param_seed": rng.randrange(1000)}
        u = rng.random()
        if u < 0.06:
            sessions[rng.randrange(len(sessions))] = []                 # a session that ends before any batch
        elif u < 0.16:
            si = rng.randrange(len(sessions))                           # a batch fails after its sampler was designated
            cfg["fault"] = {str(si): rng.randrange(len(sessions[si]))}
            cfg["use_ctx"] = True
        if rng.random() < 0.08:
            # the best loss reaches exactly zero (nothing can improve on it afterwards)
            si = rng.randrange(len(sessions))
            if sessions[si]:
                bi = rng.randrange(len(sessions[si]))
                sessions[si][bi] = [0.0] + sessions[si][bi][1:]
        return {"engine": "rlsim", "config": cfg, "sched": gen_sched(rng, tier)}

    def judge(self, r: RLRun, res: Result, tag=""):
        if r.outcome is not None:
            kind = r.outcome[0]
            if kind in ("Deadlock", "StepLimit"):
                res.add("liveness", kind.lower(), f"{tag}exchange did not complete: {r.outcome}")
            else:
                res.add("exception", kind, f"{tag}exchange raised {r.outcome}")
            return
        if r.thread_excs:
            res.add("agent-thread-exception", r.thread_excs[0][1], f"{tag}agent thread died: {r.thread_excs[0]}")
        want = reference_learns(r.executed)
        got = [(a, rew) for (_t, a, rew, *_rest) in r.learn_calls]
        if len(got) != len(want):
            extra = "more" if len(got) > len(want) else "fewer"
            res.add("learn-count", extra,
                    f"{tag}agent learned {len(got)} times for {len(want)} agent-chosen executed batches; "
                    f"executed={[(e[2], e[4]) for e in r.executed]} learned={got} expected={want}")
        else:
            for k, ((ga, gr), (wa, wr)) in enumerate(zip(got, want)):
                if ga != wa:
                    res.add("learn-action", "misattributed",
                            f"{tag}learn #{k} credited action {ga} but the batch was run by sampler {wa}; learned={got} expected={want}")
                    break
                if not math.isclose(gr, wr, rel_tol=1e-12, abs_tol=0.0):
                    res.add("learn-reward", "wrong-batch",
                            f"{tag}learn #{k} for action {ga} got reward {gr!r}, the batch's own outcome gives {wr!r}; learned={got} expected={want}")
                    break
        a = r.cfg["agent"] if hasattr(r, "cfg") else None
        if a and a.get("kind") == "eps" and r.final_counts and len(got) == len(want) and not res.violations:
            # what the agent has become: exactly what the executed batches teach it - an action it chose but that never ran
            # (the pending one dropped at a session end) leaves no trace
            from sim.props.c19 import RefBandit
            ref = RefBandit(len(r.final_counts), a["alpha"], a.get("init", 0.0))
            for (wa, wr) in want:
                ref.learn(wa, wr)
            if list(r.final_counts) != ref.c:
                res.add("agent-state", "visit-counts", f"{tag}after the exchange the agent's visit counts are {list(r.final_counts)}; the executed "
                                                       f"batches it learned from give {ref.c} (learned={want})")
            elif any(not math.isclose(x, y, rel_tol=1e-9, abs_tol=1e-12) for x, y in zip(r.final_q, ref.q)):
                res.add("agent-state", "estimates", f"{tag}after the exchange the agent's estimates are {list(r.final_q)}; the executed batches "
                                                    f"it learned from give {ref.q} (learned={want})")
        for (si, inq, outq, live) in r.leftovers:
            if inq or outq:
                res.add("leftover", "in" if inq else "out",
                        f"{tag}after session {si} ended: scheduler<-agent queue {inq}, scheduler->agent queue {outq}")
            if live:
                res.add("thread-alive", "after-end-session", f"{tag}after session {si} ended threads {live} are still alive")

    def run_pb(self, scn, res):
        """preemption-bounded enumeration: all schedules with 0, 1 and (all or sampled) 2 pre-emptions"""
        import itertools
        import random as _r
        cfg = scn["config"]
        pb = scn["pb"]
        base_sched = {"mode": "pb", "preempt_at": [], "trace": pb["trace"], "p_line": 0.0}
        ref = RLRun(cfg, base_sched).run()
        self.judge(ref, res, tag="[no pre-emption] ")
        n = ref.decisions
        res.stats["pb:decision-points"] += n
        res.stats["pb:schedules"] += 1
        want_exec = [e[2] for e in ref.executed]
        want_learn = [(x[1], x[2]) for x in ref.learn_calls]
        singles = [[i] for i in range(n + 2)]
        pairs = list(itertools.combinations(range(n + 2), 2))
        if len(pairs) > pb["max_pairs"]:
            pairs = _r.Random(pb["pair_seed"]).sample(pairs, pb["max_pairs"])
            res.stats["pb:pairs-sampled"] += 1
        else:
            res.stats["pb:pairs-exhaustive"] += 1
        hashes = {ref.sync_hash}
        for pre in singles + [list(p) for p in pairs]:
            if scn.get("pb_only") and pre != scn["pb_only"]:
                continue
            r = RLRun(cfg, {**base_sched, "preempt_at": pre}).run()
            res.stats["pb:schedules"] += 1
            res.stats["steps"] += r.steps
            hashes.add(r.sync_hash)
            tag = f"[pre-emptions at decision points {pre}] "
            before = len(res.violations)
            self.judge(r, res, tag=tag)
            if r.outcome is None:
                if [e[2] for e in r.executed] != want_exec:
                    res.add("schedule-dependence", "samplers-chosen", f"{tag}samplers chosen {[e[2] for e in r.executed]} vs {want_exec} without pre-emption")
                elif [(x[1], x[2]) for x in r.learn_calls] != want_learn:
                    res.add("schedule-dependence", "learn-sequence", f"{tag}learn sequence differs from the run without pre-emption")
            if len(res.violations) > before and "pb_only" not in scn:
                scn["pb_only"] = pre          # the replay file carries the single failing schedule
                break
        res.stats["pb:distinct-interleavings"] += len(hashes)
        res.extra_keys = [f"{jdigest(cfg)[:8]}:{h}" for h in sorted(hashes)]
        res.digest = jdigest([ref.log.digest(), sorted(hashes), [(v["clause"], v["site"]) for v in res.violations]])
        res.sample = {"mode": "preemption-bounded enumeration", "config": cfg, "decision_points": n, "schedules": int(res.stats["pb:schedules"]),
                      "line_tracing": pb["trace"]}
        return res

    def run(self, scn):
        res = Result()
        cfg = scn["config"]
        if scn.get("pb"):
            return self.run_pb(scn, res)
        main = RLRun(cfg, scn["sched"]).run()
        res.digest = main.log.digest()
        self.judge(main, res)
        res.stats["steps"] += main.steps
        res.stats["line_preemption_points"] += main.line_points
        res.stats["thread_switches"] += main.switches
        res.stats["sessions"] += len(cfg["sessions"])
        res.stats["batches"] += sum(len(s) for s in cfg["sessions"])
        res.stats["preempt@thread"] += main.switches
        if main.outcome is None:
            refs = []
            for mode in ("mainfirst", "othersfirst"):
                if scn["sched"]["mode"] == mode:
                    continue
                r2 = RLRun(cfg, {"mode": mode, "seed": 0}).run()
                refs.append((mode, r2))
                res.stats["steps"] += r2.steps
            for mode, r2 in refs:
                if r2.outcome is not None:
                    self.judge(r2, res, tag=f"[schedule {mode}] ")
                    continue
                a = [e[2] for e in main.executed]
                b = [e[2] for e in r2.executed]
                if a != b:
                    res.add("schedule-dependence", "samplers-chosen",
                            f"samplers chosen differ between schedules: {a} (this schedule) vs {b} ({mode})")
                la = [(x[1], x[2]) for x in main.learn_calls]
                lb = [(x[1], x[2]) for x in r2.learn_calls]
                if la != lb:
                    res.add("schedule-dependence", "learn-sequence", f"learn sequence differs: {la} vs {lb} ({mode})")
                elif main.final_q != r2.final_q:
                    res.add("schedule-dependence", "agent-estimates", f"final Q differs: {main.final_q} vs {r2.final_q} ({mode})")
        if main.switches > 0:
            res.key = f"{jdigest(cfg)[:8]}:{main.sync_hash}"
        if any(len(s) > 0 for s in cfg["sessions"][1:]):
            res.stats["probe:multi-session"] += 1
        res.sample = {"config": cfg, "sched": scn["sched"], "executed": [(e[0], e[2], e[4]) for e in main.executed],
                      "learned": [(x[1], round(x[2], 6)) for x in main.learn_calls], "sync_ops": main.n_sync,
                      "switches": main.switches}
        return res

    def shrink(self, scn):
        cfg = scn["config"]
        if scn.get("pb_only"):
            for i in range(len(scn["pb_only"])):
                c = copy.deepcopy(scn)
                del c["pb_only"][i]
                yield c
        # simpler schedules first
        rank = {"stay": 0, "mainfirst": 1, "othersfirst": 2}
        cur = rank.get(scn["sched"].get("mode"), 9)
        for mode in ("stay", "mainfirst", "othersfirst"):
            if rank[mode] < cur:
                c = copy.deepcopy(scn)
                c["sched"] = {"mode": mode, "seed": 0}
                yield c
        if scn["sched"].get("p_line", 0) > 0:
            c = copy.deepcopy(scn)
            c["sched"]["p_line"] = 0.0
            yield c
        # fewer sessions / batches
        for i in range(len(cfg["sessions"])):
            if len(cfg["sessions"]) > 1:
                c = copy.deepcopy(scn)
                del c["config"]["sessions"][i]
                yield c
        for i, s in enumerate(cfg["sessions"]):
            for j in range(len(s)):
                if len(s) > 1:
                    c = copy.deepcopy(scn)
                    del c["config"]["sessions"][i][j]
                    yield c
            for j, b in enumerate(s):
                if len(b) > 1:
                    c = copy.deepcopy(scn)
                    c["config"]["sessions"][i][j] = b[:1]
                    yield c
        if len(cfg["samplers"]) > 1:
            for i in range(len(cfg["samplers"])):
                c = copy.deepcopy(scn)
                del c["config"]["samplers"][i]
                yield c
        if cfg["agent"]["kind"] == "eps":
            c = copy.deepcopy(scn)
            c["config"]["agent"] = {"kind": "scripted", "script": [0, 1]}
            yield c
        elif len(cfg["agent"]["script"]) > 1:
            c = copy.deepcopy(scn)
            c["config"]["agent"]["script"] = cfg["agent"]["script"][:-1]
            yield c
        if not cfg["use_ctx"]:
            c = copy.deepcopy(scn)
            c["config"]["use_ctx"] = True
            yield c


CHECK = C10()
