"""C11 - a failing batch leaves the calibrator consistent and reusable.

Fault enumeration: for a sampled configuration the fault-free run is recorded first, then one
faulted run per invocation index of the model, of the loss and of sample() - every single position.
"""
from __future__ import annotations

import copy

from sim import calsim
from sim.core import Check, Result, jdigest
from sim.props.c02 import C02Sim


class C11Sim(C02Sim):
    """records leak/queue state right after every calibrate() returns or raises"""

    def do_calibrate(self, n):
        r = super().do_calibrate(n)
        b = self.baton
        r["live_threads"] = b.live_sim_threads() if b is not None else []
        sch = self.cal.scheduler
        left = []
        for name in ("_in_queue", "_out_queue"):
            q = getattr(sch, name, None)
            if q is not None and hasattr(q, "peek_all"):
                left.extend(repr(x)[:40] for x in q.peek_all())
        r["queued"] = left
        r["thread_excs"] = list(b.thread_excs) if b is not None else []
        r["open_pools"] = len(getattr(self, "open_pools", None) or [])
        r["findings"] = list(self.hist_findings)
        self.hist_findings = []
        if self.folder is not None:
            from black_it.calibrator import Calibrator
            import os
            if os.path.exists(os.path.join(self.folder, "calibration_params.json")):
                try:
                    r["restored"] = self.snapshot(Calibrator.restore_from_checkpoint(self.folder, model=self.model))
                except Exception as e:  # noqa: BLE001
                    r["restored"] = ("error", f"{type(e).__name__}: {e}"[:200])
        return r


def prefix_equal(small, big):
    """is history `small` bitwise the first rows of `big`?"""
    n = small["n"]
    if n > big["n"]:
        return False
    for k in ("params", "losses", "series", "batch_num", "method"):
        if small[k].dtype != big[k].dtype or small[k].tobytes() != big[k][:n].tobytes():
            return False
    return True


class C11(Check):
    pid = "C11"
    level = "fault_enumeration"
    engine = "calsim"
    rule = ("one evaluation = one sampled configuration (<= 6 batches; round-robin or RL under a seeded thread schedule; with/without "
            "folder; n_jobs 1 or >1 under the simulated pool) for which the fault position is ENUMERATED: the fault-free run, then one "
            "faulted run per invocation index of the model, of the loss and of sample(); distinct_nontrivial counts distinct "
            "(configuration, seam, index) faulted runs in which the fault actually fired")
    assumptions = ["Calibrator/schedulers/samplers/losses: real code; RL threads and queues are baton-scheduled stand-ins, so 'thread alive' and "
                   "'message queued' are read from the simulator", "under n_jobs>1 the injected exception surfaces when the failing task completes, "
                   "after an arbitrary subset of its siblings ran (as with joblib)"]
    quick = {"runs": 90, "wall": 300, "item_timeout": 400}
    thorough = {"runs": 4000, "wall": 900, "item_timeout": 300}

    def gen(self, rng, tier, i):
        cheap = ["uniform", "halton", "rseq", "pso", "bestbatch", "uniform", "halton", "rf", "xgb"]
        cfg = calsim.gen_config(rng, rl_prob=0.45, kinds=cheap, loss_kinds=["minkowski", "msm", "fourier"], max_bs=3)
        cfg["ensemble"] = rng.randint(1, 2)
        n = rng.randint(1, 6) if tier == "thorough" else rng.randint(1, 4)
        env = {"folder": rng.random() < 0.5, "n_jobs": rng.choice([1, 1, 2, 4]),
               }
        env["sched"], env["trace_lines"] = calsim.gen_sched(rng, cfg["scheduler"]["kind"] == "rl")
        if env["n_jobs"] == 1 and rng.random() < 0.3:
            env["fault_base"] = "interrupt"      # the injected failure is a KeyboardInterrupt-class BaseException, not an Exception
        scn = {"engine": "calsim", "config": cfg, "env": env, "ops": [["calibrate", n], ["calibrate", rng.randint(1, 2)]],
               "sim_seed": rng.randrange(2 ** 31)}
        if cfg["scheduler"]["kind"] == "rl" and rng.random() < (0.15 if tier == "quick" else 0.05):
            scn["real_threads"] = rng.randrange(1, 1000)      # confirmation with real OS threads in a subprocess
        return scn

    def judge_fault(self, scn, base, seam, at, res, boundaries):
        f = {"kind": "raise", "seam": seam, "at": at}
        sim = C11Sim(scn, faults=[f]).run()
        fired = bool(sim.fired)
        if not fired:
            return sim, False
        site = f"{seam}:{scn['config']['scheduler']['kind']}"
        r0 = sim.op_results[0]
        tag = f"fault at {seam} invocation {at} (scheduler {scn['config']['scheduler']['kind']}, n_jobs {sim.env['n_jobs']}, folder {sim.env['folder']})"
        if r0["exc"] is None or r0["exc"][0] != "InjectedFault":
            res.add("exception-not-propagated", site, f"{tag}: calibrate() {'returned normally' if r0['exc'] is None else 'raised ' + str(r0['exc'])}")
            return sim, True
        snap = r0["snap"]
        b0 = base.op_results[0]["snap"]
        if r0["findings"]:
            c, s, d = r0["findings"][0]
            res.add("history-misaligned", f"{site}:{c}", f"{tag}: after the failure {d}")
        elif snap["n"] not in boundaries or not prefix_equal(snap, b0):
            res.add("history-not-fault-free-prefix", site, f"{tag}: history has {snap['n']} rows / batch index {snap['batch_index']}; batch boundaries of the "
                                                           f"fault-free run are at rows {boundaries}; prefix equal: {prefix_equal(snap, b0)}")
        if r0["live_threads"]:
            res.add("thread-left-running", site, f"{tag}: threads {r0['live_threads']} still alive after calibrate() raised")
        if r0.get("open_pools"):
            res.add("worker-pool-left-open", site, f"{tag}: {r0['open_pools']} managed worker pool(s) entered by calibrate() were not exited after it raised "
                                                   "(their workers stay alive)")
        if r0["queued"]:
            res.add("message-left-queued", site, f"{tag}: queues hold {r0['queued']} after calibrate() raised")
        rest = r0.get("restored")
        if rest is not None:
            if isinstance(rest, tuple):
                res.add("checkpoint-unreadable-after-failure", site, f"{tag}: {rest}")
            elif rest["n"] not in boundaries or not prefix_equal(rest, b0):
                res.add("checkpoint-of-half-finished-batch", site, f"{tag}: the folder restores to {rest['n']} rows; batch boundaries are {boundaries}")
        if len(sim.op_results) > 1:
            r1 = sim.op_results[1]
            m = scn["ops"][1][1]
            if r1["exc"] is not None:
                import re
                words = "-".join(re.sub(r"[^A-Za-z ]", "", r1["exc"][1]).split()[:4])
                res.add("not-reusable", f"{site}:{r1['exc'][0]}:{words}", f"{tag}: the next calibrate({m}) raised {r1['exc']}")
            else:
                if r1["findings"]:
                    c, s, d = r1["findings"][0]
                    res.add("continuation-misaligned", f"{site}:{c}", f"{tag}: after the next calibrate({m}): {d}")
                if r1["snap"]["batch_index"] != snap["batch_index"] + m or not prefix_equal(snap, r1["snap"]):
                    res.add("continuation-inconsistent", site, f"{tag}: next calibrate({m}) moved batch index {snap['batch_index']} -> {r1['snap']['batch_index']}")
                if r1.get("open_pools"):
                    res.add("worker-pool-left-open", f"{site}:continuation", f"{tag}: after the continuation {r1['open_pools']} managed worker pool(s) are still open")
                if r1["live_threads"] or r1["queued"]:
                    res.add("thread-left-running", f"{site}:continuation", f"{tag}: after the continuation threads {r1['live_threads']} queue {r1['queued']}")
        elif len(scn["ops"]) > 1:
            res.add("not-reusable", f"{site}:fatal", f"{tag}: the run could not continue: {sim.op_results[-1]}")
        return sim, True

    def run(self, scn):
        res = Result()
        base = C11Sim(scn, faults=[]).run()
        digests = [base.digest()]
        r0 = base.op_results[0]
        if r0["exc"] is not None or r0.get("findings"):
            # the fault-free run itself fails (third-party numerics): nothing to enumerate against
            res.stats["baseline-unusable"] += 1
            res.digest = jdigest(digests)
            res.sample = {"baseline": r0["exc"]}
            return res
        done = base.completed_batches()
        first_call = [b for b in done if b.hist_len < r0["snap"]["n"]]
        boundaries = [0] + [b.hist_len + len(b.returned) for b in first_call]
        n_model = sum(len(b.calls) for b in first_call)
        n_loss = sum(len(b.losses) for b in first_call)
        n_sample = len(first_call)
        cfgkey = jdigest(scn["config"])[:10]
        for seam, count in (("model", n_model), ("loss", n_loss), ("sampler", n_sample)):
            for at in range(count):
                sim, fired = self.judge_fault(scn, base, seam, at, res, boundaries)
                res.stats["faulted-runs"] += 1
                if fired:
                    res.stats[f"raise@{seam}"] += 1
                    res.extra_keys.append(f"{cfgkey}:{seam}:{at}")
                else:
                    res.stats["fault-did-not-fire"] += 1
                digests.append(sim.digest())
        res.stats["fault-positions-enumerated"] += n_model + n_loss + n_sample
        if scn.get("real_threads") and scn["config"]["scheduler"]["kind"] == "rl" and n_model:
            from sim.core import subprocess_ok
            if subprocess_ok():
                self.real_thread_probe(scn, scn["real_threads"] % n_model, res)
            else:
                res.stats["skipped:real-thread-probe(no subprocess)"] += 1
        if scn["config"]["scheduler"]["kind"] == "rl":
            res.stats["probe:rl-config"] += 1
        res.digest = jdigest(digests)
        c = scn["config"]
        res.sample = {"lineup": [(s["cls"], s["batch_size"]) for s in c["lineup"]], "scheduler": c["scheduler"]["kind"], "ensemble": c["ensemble"],
                      "ops": scn["ops"], "env": scn["env"], "fault_positions": {"model": n_model, "loss": n_loss, "sampler": n_sample}}
        return res

    def real_thread_probe(self, scn, k, res):
        """the same RL configuration with REAL threads in a subprocess: the process must be able to exit"""
        import json
        import os
        import subprocess
        import sys
        import tempfile
        from pathlib import Path

        from sim.core import HOME
        fd, path = tempfile.mkstemp(prefix="verif-c11-real-", suffix=".json")
        os.close(fd)
        try:
            Path(path).write_text(json.dumps({k2: v for k2, v in scn.items() if k2 != "expect"}))
            try:
                p = subprocess.run([sys.executable, str(HOME / "sim" / "realrun.py"), path, str(k)], capture_output=True, text=True, timeout=90)
                line = next((ln for ln in p.stdout.splitlines() if ln.startswith("REALRUN ")), None)
            except subprocess.TimeoutExpired as e:
                out = (e.stdout or b"")
                out = out.decode() if isinstance(out, bytes) else out
                line = next((ln for ln in out.splitlines() if ln.startswith("REALRUN ")), None)
                res.add("thread-left-running", "real-threads:process-cannot-exit",
                        f"real threads, model fault at invocation {k}: the interpreter did not exit within 90 s after calibrate() raised ({line})")
                return
        finally:
            os.unlink(path)
        res.stats["real-thread-subprocess-probes"] += 1
        if line is None:
            res.stats["skipped:real-thread-probe-failed-to-run"] += 1
            return
        if "PROPAGATED" not in line and "NO-FAULT" not in line:
            res.add("exception-not-propagated", "real-threads", f"real threads, model fault at invocation {k}: {line}")
        if "NOT-REUSABLE" in line:
            res.add("not-reusable", "real-threads", f"real threads, model fault at invocation {k}: {line}")

    def shrink(self, scn):
        if scn.get("real_threads"):
            c = copy.deepcopy(scn)
            c.pop("real_threads")
            yield c
        yield from calsim.shrink_scn(scn)


CHECK = C11()
