"""C18 - sampler labels in a history can always be mapped back to sampler names.

Op histories over {calibrate(n), set_samplers, set_scheduler, checkpoint (folder), restore} with line-ups
in which classes repeat, come and go.  RefIdTable: first-seen numbering, append-only.  The table must
be recoverable from every checkpoint the calibrator writes: by restore_from_checkpoint and by the
plotting helper that labels saved runs.
"""
from __future__ import annotations

import copy

import numpy as np

from sim import calsim
from sim.core import Check, Result, jdigest

CHEAP = ["uniform", "halton", "rseq", "pso", "bestbatch", "rf"]
CLASSNAME = {"uniform": "RandomUniformSampler", "halton": "HaltonSampler", "rseq": "RSequenceSampler", "pso": "ParticleSwarmSampler",
             "bestbatch": "BestBatchSampler", "rf": "RandomForestSampler", "gp": "GaussianProcessSampler", "xgb": "XGBoostSampler",
             "cors": "CORSSampler"}


class C18Sim(calsim.CalSim):
    def run(self):
        self.findings = []
        self.ref_table = {}          # class name -> id, first-seen, append-only
        self.row_class = []          # class that produced each history row (from the sampler seam)
        return super().run()

    def note_table(self, when):
        """the live table may only grow and must never renumber"""
        t = dict(self.cal.samplers_id_table)
        for name, i in self.ref_table.items():
            if t.get(name) != i:
                self.findings.append(("id-reassigned", "live-table", f"{when}: class {name} had id {i}, the table now says {t.get(name)} ({t})"))
                return
        ids = sorted(t.values())
        if len(set(ids)) != len(ids):
            self.findings.append(("id-not-unique", "live-table", f"{when}: two classes share an id: {t}"))
        for name, i in t.items():
            self.ref_table.setdefault(name, i)

    def check_rows(self, cal, table, when, clause_site):
        """every stored label maps through `table` to the class that produced the row"""
        done = self.completed_batches(cal)
        inv = {}
        for k, v in table.items():
            inv.setdefault(v, []).append(k)
        for b in done:
            for r in range(b.hist_len, b.hist_len + len(b.returned)):
                lab = int(cal.method_samp[r])
                names = inv.get(lab, [])
                if names != [b.cls]:
                    self.findings.append((clause_site[0], clause_site[1],
                                          f"{when}: row {r} was produced by {b.cls} and carries label {lab}, which the table maps to {names or 'nothing'} (table {table})"))
                    return False
        return True

    def after(self, when):
        self.note_table(when)
        self.check_rows(self.cal, dict(self.cal.samplers_id_table), when, ("label-wrong-class", "live-table"))

    def check_folder(self, folder, when):
        from black_it.calibrator import Calibrator
        live = self.cal
        try:
            rest = Calibrator.restore_from_checkpoint(folder, model=self.model)
        except Exception as e:  # noqa: BLE001
            self.findings.append(("restore-raises", type(e).__name__, f"{when}: {e!r}"[:300]))
            return
        self.stats["restored-tables-checked"] += 1
        self.check_rows(live, dict(rest.samplers_id_table), when + " [table of the restored calibrator]", ("table-lost-by-restore", "restored-table"))
        # the plotting helper labels saved runs from the folder alone
        try:
            import black_it.plot.plot_results as pr
            ids = sorted({int(x) for x in live.method_samp})
            if ids:
                names = pr._get_samplers_names(folder, ids)  # noqa: SLF001
                want = {}
                for b in self.completed_batches(live):
                    want[int(live.method_samp[b.hist_len])] = b.cls
                got = dict(zip(ids, names))
                if got != {i: want[i] for i in ids}:
                    self.findings.append(("plot-labels-wrong", "plot-helper", f"{when}: plot helper names {got}, the rows were produced by {want}"))
                self.stats["plot-helper-calls"] += 1
        except Exception as e:  # noqa: BLE001
            self.findings.append(("plot-helper-raises", type(e).__name__, f"{when}: _get_samplers_names on a checkpoint the calibrator wrote raised {e!r}"[:300]))

    def do_op(self, op):
        r = super().do_op(op)
        when = f"after op {len(self.op_results)} {op[0]}"
        if self.cal is None or r.get("fatal"):
            return r
        if op[0] == "restore":
            # a restore legitimately goes back to the table of the checkpoint (classes added after it are gone again);
            # what must hold is that the restored table maps every restored label to its producer (checked in after())
            self.ref_table = {}
        if op[0] in ("calibrate", "calibrate_fault", "set_samplers", "set_scheduler", "restore"):
            self.after(when)
        if op[0] == "calibrate" and self.folder is not None and r["exc"] is None:
            self.check_folder(self.folder, when)
        if op[0] == "checkpoint" and r["exc"] is None:
            self.check_folder(self.named_folder(op[1]), when)
        return r


class C18(Check):
    pid = "C18"
    level = "exploration"
    engine = "calsim"
    rule = ("one evaluation = one op history over {calibrate(n), set_samplers(list), set_scheduler(round-robin or RL), calibrate with a failing batch, create_checkpoint, "
            "restore+continue} on a real Calibrator with a folder, line-ups where classes repeat and come and go; the sampler seam "
            "records the class that produced every row; after every op the live table is compared with the reference table, and every "
            "checkpoint written is restored and also read by plot_results._get_samplers_names; non-trivial = the line-up was replaced "
            "at least once and at least 2 batches completed; distinct = distinct (line-ups, op kinds)")
    assumptions = ["Calibrator, checkpointing, plot_results helper: real code (matplotlib/seaborn imported with the Agg back-end, nothing is drawn)",
                   "RL schedulers (a fifth of the initial configurations, a third of the set_scheduler ops) run with a scripted agent on baton-scheduled threads"]
    quick = {"runs": 600, "wall": 300, "item_timeout": 300}
    thorough = {"runs": 15000, "wall": 900, "item_timeout": 180}

    def gen(self, rng, tier, i):
        cfg = calsim.gen_config(rng, rl_prob=0.2, kinds=CHEAP, loss_kinds=["minkowski", "msm"], max_bs=2)
        if cfg["scheduler"]["kind"] == "rl":
            cfg["scheduler"]["agent"] = {"kind": "scripted", "script": [rng.randrange(8) for _ in range(rng.randint(1, 6))]}
        ops = [["calibrate", rng.randint(1, 4)]]
        for _ in range(rng.randint(1, 4)):
            u = rng.random()
            if u < 0.35:
                ops.append(["set_samplers", calsim.gen_lineup(rng, n=rng.randint(1, 3), kinds=CHEAP, max_bs=2)])
                ops.append(["calibrate", rng.randint(1, 3)])
            elif u < 0.55:
                if rng.random() < 0.3:
                    # an RL scheduler brings its own Halton bootstrap sampler when the line-up has none
                    ops.append(["set_scheduler", {"kind": "rl", "agent": {"kind": "scripted", "script": [rng.randrange(8) for _ in range(rng.randint(1, 6))]},
                                                  "lineup": calsim.gen_lineup(rng, n=rng.randint(1, 3), kinds=CHEAP, max_bs=2, rl=True)}])
                else:
                    ops.append(["set_scheduler", {"kind": "rr", "lineup": calsim.gen_lineup(rng, n=rng.randint(1, 3), kinds=CHEAP, max_bs=2)}])
                ops.append(["calibrate", rng.randint(1, 3)])
            elif u < 0.7:
                ops.append(["checkpoint", rng.choice("AB")])
            elif u < 0.82:
                ops.append(["restore"])
                ops.append(["calibrate", rng.randint(1, 2)])
            elif u < 0.92:
                # a batch fails (the model raises) after its sampler was chosen; the caller catches it and carries on
                ops.append(["calibrate_fault", rng.randint(1, 3), rng.randint(0, 4)])
                ops.append(["calibrate", rng.randint(1, 2)])
            else:
                ops.append(["calibrate", rng.randint(1, 2)])
        return {"engine": "calsim", "config": cfg, "env": {"folder": True, "n_jobs": 1}, "ops": ops, "sim_seed": rng.randrange(2 ** 31)}

    def run(self, scn):
        res = Result()
        sim = C18Sim(scn).run()
        for clause, site, detail in sim.findings:
            res.add(clause, site, detail)
        res.stats.update(sim.stats)
        kinds = [o[0] for o in scn["ops"]]
        replaced = any(k in ("set_samplers", "set_scheduler") for k in kinds)
        if replaced:
            res.stats["probe:line-up-replaced"] += 1
        if sim.cal is not None and replaced and len(sim.completed_batches()) >= 2:
            res.key = jdigest([[s["cls"] for s in scn["config"]["lineup"]], [(o[0], [s["cls"] for s in (o[1] if o[0] == "set_samplers" else o[1]["lineup"])])
                                                                                 if o[0] in ("set_samplers", "set_scheduler") else o[0] for o in scn["ops"]]])
        res.digest = jdigest([sim.digest(), [f[:2] for f in sim.findings]])
        res.sample = {"lineup": [s["cls"] for s in scn["config"]["lineup"]],
                      "ops": [(o[0], [s["cls"] for s in (o[1] if o[0] == "set_samplers" else o[1]["lineup"])]) if o[0] in ("set_samplers", "set_scheduler")
                              else o for o in scn["ops"]],
                      "final_table": dict(sim.cal.samplers_id_table) if sim.cal is not None else None}
        return res

    def shrink(self, scn):
        for c in calsim.shrink_scn(scn):
            if c["ops"] and c["ops"][0][0] == "calibrate":
                yield c


CHECK = C18()
