"""C03 - every proposed parameter vector belongs to the declared search space.

compsim: one sampler object through sample / append-history / restart / reseed on awkward spaces;
calsim: the same invariant monitored at the sampler and model seams of whole calibrations.
"""
from __future__ import annotations

import copy
import random

import numpy as np

from sim import calsim
from sim.compsim import gen_losses, grid_points, make_space, off_declared_grid, on_grid, out_of_bounds, pin_third_party, quiet, restart
from sim.core import Check, Result, jdigest
from sim.seams import Seams

NUMERIC = ("LinAlgError", "ValueError", "FloatingPointError", "ZeroDivisionError", "XGBoostError", "ConvergenceWarning")


def gen_compsim(rng: random.Random, kinds=None):
    dims = rng.randint(1, 6)
    kind = rng.choice(kinds or calsim.SAMPLER_KINDS)
    if kind == "cors":
        dims = min(dims, 3)
    bs = rng.randint(1, 5)
    ops = []
    for _ in range(rng.randint(2, 8)):
        v = rng.random()
        if v < 0.6:
            ops.append(["sample"])
        elif v < 0.75:
            ops.append(["append", rng.randint(1, 4)])      # points proposed by "other samplers"
        elif v < 0.9:
            ops.append(["restart"])
        else:
            ops.append(["reseed", rng.randrange(2 ** 31)])
    ops.append(["sample"])
    if rng.random() < 0.06:
        # the same sampler object is later asked to work on another space of the same dimension
        ops.insert(rng.randrange(1, len(ops)), ["space", calsim.gen_space(rng, dims, small=rng.random() < 0.3)])
    return {"engine": "compsim", "space": calsim.gen_space(rng, dims, small=rng.random() < 0.3),
            "hist_dtype": rng.choice(["float64"] * 8 + ["float32", "int"]),
            "sampler": calsim.gen_sampler_spec(rng, kind, bs), "ctor_seed": rng.randrange(2 ** 31),
            "hist_seed": rng.randrange(2 ** 31), "hist_n": rng.randint(bs, bs + 12), "loss_mode": rng.choice(["ties", "negpos", "plain"]),
            "ops": ops, "hist_buffer": rng.random() < 0.25}


def run_compsim(scn, res: Result, check_fn=None):
    """Drive one sampler through the op sequence; check_fn(space, sampler, pts, losses, out) adds extra oracles."""
    space = make_space(scn["space"])
    sampler = calsim.make_sampler(scn["sampler"], scn["ctor_seed"])
    cls = type(sampler).__name__
    nrng = np.random.default_rng(scn["hist_seed"])
    pts = grid_points(space, nrng, scn["hist_n"])
    losses = gen_losses(nrng, len(pts), scn["loss_mode"])
    if scn.get("offspace"):
        # (C16 only) a history inherited from a wider search space: a few of its best points lie outside the bounds
        org = np.random.default_rng(scn["offspace"])
        k = int(org.integers(1, max(2, len(pts) // 2)))
        rows = org.choice(len(pts), size=k, replace=False)
        for r in rows:
            j = int(org.integers(0, space.dims))
            step = float(space.parameters_precision[j])
            side = 1 if org.random() < 0.5 else -1
            edge = space.parameters_bounds[1][j] if side > 0 else space.parameters_bounds[0][j]
            pts[r, j] = edge + side * step * float(org.choice([0.4, 1.0, 2.0, 3.5, 40.0]))
            losses[r] = np.min(losses[np.isfinite(losses)]) - float(org.random()) - 0.1 if np.isfinite(losses).any() else -1.0
    hd = scn.get("hist_dtype", "float64")
    if hd == "float32":
        pts = pts.astype(np.float32)            # a history kept in single precision (still a legal array of on-grid points
        res.stats["history-dtype:float32"] += 1  # to the precision of that type)
    elif hd == "int" and all(float(v).is_integer() for g in space.param_grid for v in (g[0], g[-1])) and \
            all(float(p).is_integer() for p in space.parameters_precision):
        pts = pts.astype(np.int64)
        res.stats["history-dtype:int"] += 1
    space_spec = scn["space"]
    n_samples = 0
    lent = []            # every array lent at an earlier call, with its content at that time: the caller never touches them again
    cap = None
    if scn.get("hist_buffer"):
        # the caller keeps its history in one preallocated buffer and lends views of the filled part
        cap = len(pts) + 8 + sum((o[1] if o[0] == "append" else 8) for o in scn["ops"])
        buf_p = np.zeros((cap, pts.shape[1]), dtype=pts.dtype)
        buf_l = np.zeros(cap)
        buf_p[:len(pts)] = pts
        buf_l[:len(losses)] = losses
        pts, losses = buf_p[:len(pts)], buf_l[:len(losses)]
        res.stats["history-lent-as-buffer-view"] += 1

    def grow(new_p, new_l):
        n, m = len(pts), len(new_p)
        if cap is None or n + m > cap:
            return np.vstack((pts, new_p)), np.hstack((losses, new_l))
        buf_p[n:n + m] = new_p
        buf_l[n:n + m] = new_l
        return buf_p[:n + m], buf_l[:n + m]
    for oi, op in enumerate(scn["ops"]):
        if op[0] == "space":
            space_spec = op[1]
            space = make_space(space_spec)
            pts = grid_points(space, nrng, max(len(pts), 1)).astype(pts.dtype)
            losses = losses.copy()
            cap = None
            res.stats["space-switch@sampler"] += 1
            continue
        if op[0] == "sample":
            p0, l0 = pts.copy(), losses.copy()
            try:
                out = sampler.sample(space, pts, losses)
            except Exception as e:  # noqa: BLE001
                # third-party numerical failure: the property speaks about returned batches
                res.stats[f"discarded-op:{type(e).__name__}"] += 1
                if pts.tobytes() != p0.tobytes() or losses.tobytes() != l0.tobytes():
                    res.add("history-modified", cls, f"{cls}.sample() raised {type(e).__name__} after modifying the arrays it was lent")
                break
            out = np.asarray(out, dtype=np.float64)      # judged as double precision values, whatever came back
            n_samples += 1
            if pts.tobytes() != p0.tobytes() or losses.tobytes() != l0.tobytes():
                which = "points" if pts.tobytes() != p0.tobytes() else "losses"
                res.add("history-modified", f"{cls}:{which}", f"{cls}.sample() modified the {which} array it was lent (op {oi})")
                pts, losses = p0, l0
                cap = None
            for arr, snap, which, at in lent:
                if arr.tobytes() != snap:
                    res.add("history-modified", f"{cls}:{which}:earlier-call",
                            f"{cls}.sample() (op {oi}) modified the {which} array it had been lent at op {at} (the caller has not touched it since)")
                    lent.clear()
                    break
            lent.append((pts, pts.tobytes(), "points", oi))
            lent.append((losses, losses.tobytes(), "losses", oi))
            if out.shape != (sampler.batch_size, space.dims):
                res.add("shape", cls, f"{cls} returned shape {out.shape}, expected {(sampler.batch_size, space.dims)} (op {oi}, call #{n_samples})")
                break
            oob = out_of_bounds(space_spec, out)
            if oob is not None:
                i, j, v = oob
                res.add("out-of-bounds", cls, f"{cls} call #{n_samples} (op {oi}) proposed {v!r} for parameter {j}, outside the declared "
                                              f"bounds [{space_spec['bounds'][0][j]!r}, {space_spec['bounds'][1][j]!r}] (precision {space_spec['precision'][j]!r})")
                break
            offd = off_declared_grid(space_spec, out)
            if offd is not None:
                i, j, v = offd
                res.add("off-declared-grid", cls, f"{cls} call #{n_samples} (op {oi}) proposed {v!r} for parameter {j}: not lower + k*precision for any k "
                                                  f"(lower {space_spec['bounds'][0][j]!r}, precision {space_spec['precision'][j]!r}, upper {space_spec['bounds'][1][j]!r})")
                break
            bad = on_grid(space, out)
            if bad is not None:
                i, j, v = bad
                res.stats["probe:offgrid"] += 1
                res.add("offgrid", cls, f"{cls} call #{n_samples} (op {oi}) proposed {v!r} for parameter {j}: not an element of its grid "
                                        f"(bounds {space.parameters_bounds[:, j].tolist()}, precision {space.parameters_precision[j]!r}, "
                                        f"nearest grid elements {space.param_grid[j][max(0, np.searchsorted(space.param_grid[j], v) - 1):][:2].tolist()})")
                break
            if check_fn is not None:
                check_fn(space, sampler, pts, losses, out, res)
            # the calibrator appends the batch with its losses
            new_l = gen_losses(nrng, len(out), scn["loss_mode"])
            pts, losses = grow(out.astype(pts.dtype) if cap is not None else out, new_l)
        elif op[0] == "append":
            extra = grid_points(space, nrng, op[1])
            pts, losses = grow(extra.astype(pts.dtype) if cap is not None else extra, gen_losses(nrng, op[1], scn["loss_mode"]))
        elif op[0] == "restart":
            sampler = restart(sampler)
            res.stats["restart@sampler"] += 1
        elif op[0] == "reseed":
            sampler.random_state = op[1]
            res.stats["reseed@sampler"] += 1
    res.stats["sample-calls"] += n_samples
    return cls, n_samples


def shrink_compsim(scn):
    if scn.get("hist_buffer"):
        c = copy.deepcopy(scn)
        c["hist_buffer"] = False
        yield c
    for i in range(len(scn["ops"]) - 1, -1, -1):
        c = copy.deepcopy(scn)
        del c["ops"][i]
        if any(o[0] == "sample" for o in c["ops"]):
            yield c
    dims = len(scn["space"]["precision"])
    if dims > 1:
        for j in range(dims):
            c = copy.deepcopy(scn)
            for k in (0, 1):
                del c["space"]["bounds"][k][j]
            del c["space"]["precision"][j]
            yield c
    if scn["sampler"]["batch_size"] > 1:
        c = copy.deepcopy(scn)
        c["sampler"]["batch_size"] -= 1
        yield c
    if scn["hist_n"] > scn["sampler"]["batch_size"]:
        c = copy.deepcopy(scn)
        c["hist_n"] = max(scn["sampler"]["batch_size"], scn["hist_n"] // 2)
        yield c


class C03(Check):
    pid = "C03"
    level = "exploration"
    engine = "compsim+calsim"
    rule = ("one evaluation = one op sequence (sample / append-history / pickle-restart / reseed, 3-9 ops) on one built-in sampler "
            "with random admissible options on a generated space (1-6 parameters, bounds of mixed sign and scale, precisions that "
            "do or do not divide the range), or (1 in 5) one whole simulated calibration with the grid invariant monitored at the "
            "sampler and model seams; non-trivial = at least two successful sample() calls on the same object; distinct = distinct "
            "(sampler class, dims, op-kind sequence, space)")
    assumptions = ["all nine built-in samplers, SearchSpace, digitize_data: real code; sklearn/xgboost/scipy real, forced single-threaded",
                   "third-party numerical failures (singular GP, SLSQP) end the op sequence and are counted, not judged"]
    quick = {"runs": 3000, "wall": 150, "item_timeout": 120}
    thorough = {"runs": 60000, "wall": 900, "item_timeout": 90}

    def gen(self, rng, tier, i):
        if rng.random() < 0.2:
            cfg = calsim.gen_config(rng, rl_prob=0.2)
            return {"engine": "calsim", "config": cfg, "env": {"n_jobs": rng.choice([1, 2])}, "ops": [["calibrate", rng.randint(2, 7)]],
                    "sim_seed": rng.randrange(2 ** 31)}
        return gen_compsim(rng)

    def run(self, scn):
        res = Result()
        if scn["engine"] == "calsim":
            sim = calsim.CalSim(scn).run()
            for (pid, clause, site, detail) in sim.mon:
                if pid == "C03":
                    res.add(clause, site, detail)
            res.stats.update(sim.stats)
            res.stats["calsim-batches"] += len(sim.batches)
            if len(sim.batches) >= 2:
                res.key = "calsim:" + jdigest([scn["config"]["lineup"], scn["config"]["space"]])
            res.digest = sim.digest()
            res.sample = {"engine": "calsim", "lineup": [s["cls"] for s in scn["config"]["lineup"]], "space": scn["config"]["space"]}
            return res
        seams = Seams()
        with quiet():
            pin_third_party(seams)
            try:
                cls, n = run_compsim(scn, res)
            finally:
                seams.undo()
        if n >= 2:
            res.key = f"{cls}:{len(scn['space']['precision'])}:{''.join(o[0][0] for o in scn['ops'])}:{jdigest(scn['space'])[:8]}"
        res.digest = jdigest([res.violations, dict(res.stats), n])
        res.sample = {k: scn[k] for k in ("space", "sampler", "ops")}
        return res

    def shrink(self, scn):
        if scn["engine"] == "calsim":
            yield from calsim.shrink_scn(scn)
        else:
            yield from shrink_compsim(scn)


CHECK = C03()
