"""C06 - an interrupted checkpoint save is never restored as a silent hybrid.

JSON/CSV/HDF5 back-end: fault ENUMERATION over every crash point of a recorded real save (every
operation, every byte step inside every write) applied to the previous folder contents; each
materialised folder is given to the real restore_from_checkpoint and classified as
error / exactly-old / exactly-new / HYBRID by deep bitwise comparison.
SQLite back-end: exception before, and process death after, every call the save makes.
"""
from __future__ import annotations

import copy
import os
import shutil
import sqlite3
import tempfile

import numpy as np

from sim import calsim
from sim.core import Check, Result, jdigest
from sim.deep import calibrator_state, deep_diff
from sim.diskcrash import FILES, Recorder, SqliteFault, SqliteProxy, crash_states, materialise, read_folder
from sim.seams import Seams

CHEAP = ["uniform", "halton", "rseq", "bestbatch", "pso"]


def state_of(folder, model):
    from black_it.calibrator import Calibrator
    cal = Calibrator.restore_from_checkpoint(folder, model=model)
    return calibrator_state(cal)


class C06Sim(calsim.CalSim):
    """old state -> advance -> recorded save -> enumerate crash states"""

    def __init__(self, scn, res, byte_step):
        super().__init__(scn, env={"folder": False, "n_jobs": 1})
        self.res = res
        self.byte_step = byte_step
        self.outcomes = {}

    def finish(self):
        scn, res = self.scn, self.res
        cal = self.cal
        F = self.new_folder("F")  # noqa: N806
        scratch = self.new_folder("crash")
        pre = scn["prestate"]
        if scn.get("warm_saves"):
            # the save under test is not the first one this process performs (per-process state of the saving code)
            warm = self.new_folder("warm")
            for _ in range(scn["warm_saves"]):
                cal.create_checkpoint(warm)
            res.stats["warm-up-saves"] += scn["warm_saves"]
        if pre == "other-run":
            # the folder holds the checkpoint of a different calibration (other shapes)
            other = self.build(scn["other_config"], folder=None)
            other.calibrate(scn["k_old"])
            other.create_checkpoint(F)
        cal.calibrate(scn["k_old"])
        if pre == "same-run":
            cal.create_checkpoint(F)
        old_files = read_folder(F) if os.path.exists(F) else {}
        try:
            old_state = state_of(F, self.model) if old_files else None
        except Exception:  # noqa: BLE001
            old_state = None       # a different run with another model name etc.: 'old' is then simply "an error"
        cal.calibrate(scn["k_new"])
        with Recorder(F) as rec:
            cal.create_checkpoint(F)
        ops = rec.finish()
        new_files = read_folder(F)
        new_state = state_of(F, self.model)
        # validation of the disk model: replaying the whole trace over the old contents must give the real files
        replay = dict(old_files)
        from sim.diskcrash import apply_op
        for op in ops:
            apply_op(replay, op)
        for name in FILES:
            if replay.get(name) != new_files.get(name):
                raise RuntimeError(f"disk model does not reproduce {name}: {len(replay.get(name, b''))} vs {len(new_files.get(name, b''))} bytes")
        res.stats["disk-model-validated-saves"] += 1
        res.stats["trace-operations"] += len(ops)
        n_states = 0
        for label, st in crash_states(old_files, ops, self.byte_step):
            n_states += 1
            materialise(st, scratch)
            i, fname, kind, k = label
            try:
                got = state_of(scratch, self.model)
            except BaseException as e:  # noqa: BLE001
                if isinstance(e, (KeyboardInterrupt, SystemExit)):
                    raise
                self.outcomes[("error", fname, kind)] = self.outcomes.get(("error", fname, kind), 0) + 1
                res.stats["crash-state:error"] += 1
                if k is None and kind != "before-save":
                    self.save_on_top(cal, scratch, new_state, f"crash after trace operation {i} ({kind} on {fname})", f"{fname}:{kind}")
                continue
            if new_state is not None and not deep_diff(got, new_state):
                cls = "new"
            elif old_state is not None and not deep_diff(got, old_state):
                cls = "old"
            else:
                cls = "hybrid"
            self.outcomes[(cls, fname, kind)] = self.outcomes.get((cls, fname, kind), 0) + 1
            res.stats[f"crash-state:{cls}"] += 1
            if k is None and kind != "before-save":
                self.save_on_top(cal, scratch, new_state, f"crash after trace operation {i} ({kind} on {fname})", f"{fname}:{kind}")
            if cls == "hybrid" and self.outcomes[(cls, fname, kind)] > 3:
                continue            # enough of this kind at this site: bounded cost on a broken tree
            if cls == "hybrid":
                d_new = deep_diff(got, new_state)[:2]
                d_old = deep_diff(got, old_state)[:2] if old_state is not None else ["(no previous checkpoint)"]
                res.add("hybrid-restore", f"json-backend:{fname}:{kind}",
                        f"crash at trace operation {i} ({kind} on {fname}{'' if k is None else f', {k} bytes written'}) with previous folder "
                        f"'{scn['prestate']}': restore_from_checkpoint succeeds but the state is neither the previous nor the new checkpoint; "
                        f"vs new: {d_new}; vs previous: {d_old}; rows restored {got['n_sampled_params']} / series {got['series_samp'].shape[0]} "
                        f"(old {old_state['n_sampled_params'] if old_state else None}, new {new_state['n_sampled_params']})")
        res.stats["crash-states"] += n_states
        self.n_states = n_states
        # ---- ioerror@save: an OSError out of every operation of a live save; the process survives
        from sim.diskcrash import FaultySave, Injector
        materialise(old_files, F) if old_files else (shutil.rmtree(F, ignore_errors=True))
        dry = Injector(None)
        with FaultySave(F, dry):
            cal.create_checkpoint(F)
        if not deep_diff(state_of(F, self.model), new_state) == []:
            raise RuntimeError("fault-point proxies change the result of a fault-free save")
        for k, label in enumerate(dry.labels):
            if old_files:
                materialise(old_files, F)
            else:
                shutil.rmtree(F, ignore_errors=True)
            inj = Injector(k)
            raised = None
            try:
                with FaultySave(F, inj):
                    cal.create_checkpoint(F)
            except OSError as e:
                raised = e
            except Exception as e:  # noqa: BLE001
                raised = e
            res.stats["ioerror@save"] += 1
            point = label.split(":")[0] + ":" + label.split(":")[1]
            got = None
            try:
                got = state_of(F, self.model)
            except BaseException as e:  # noqa: BLE001
                if isinstance(e, (KeyboardInterrupt, SystemExit)):
                    raise
                cls = "error"
            else:
                if not deep_diff(got, new_state):
                    cls = "new"
                elif old_state is not None and not deep_diff(got, old_state):
                    cls = "old"
                else:
                    cls = "hybrid"
            self.outcomes[(cls, "live:" + point, "ioerror")] = 1
            res.stats[f"ioerror-state:{cls}"] += 1
            # bounded liveness: the fault is over; the same process saves again (no fault) and that checkpoint must restore exactly
            dd = []
            try:
                cal.create_checkpoint(F)
            except Exception:  # noqa: BLE001
                res.stats["save-after-failed-save:raises"] += 1      # refusing loudly is acceptable, a silent mixture is not
            else:
                try:
                    dd = deep_diff(state_of(F, self.model), new_state)
                except Exception as e:  # noqa: BLE001
                    dd = [f"restore raises {type(e).__name__}: {e}"[:200]]
            res.stats["save-after-failed-save"] += 1
            if dd:
                res.add("save-after-failed-save-not-clean", f"json-backend:{point}",
                        f"after an OSError at fault point {k} ({label}) the next save into the same folder SUCCEEDS but the folder does not restore "
                        f"to the saved state: {dd[:3]}")
            if cls == "hybrid":
                res.add("hybrid-restore-after-error", f"json-backend:{point}",
                        f"OSError injected at fault point {k} ({label}) of a live save (previous folder '{scn['prestate']}', the save "
                        f"{'raised ' + type(raised).__name__ if raised else 'returned normally'}): a later restore succeeds with a state that is neither the "
                        f"previous nor the new checkpoint; vs new: {deep_diff(got, new_state)[:2]}; vs previous: "
                        f"{deep_diff(got, old_state)[:2] if old_state is not None else '(none)'}")
        self.files_order = [o[1] for o in ops if o[0] == "trunc"] + [n for n in rec.opened if n == "series_samp.h5"]
        self.fault_points = list(dry.labels)
        if scn.get("strace"):
            self.real_kills(F, old_files, old_state, new_state)

    def save_on_top(self, cal, folder, new_state, what, site):
        """the crashed process is gone; a process holding the new state saves into the folder the crash left behind"""
        dd = []
        try:
            cal.create_checkpoint(folder)
        except Exception:  # noqa: BLE001
            self.res.stats["save-on-top-of-crash-state:raises"] += 1     # refusing loudly is acceptable
        else:
            try:
                dd = deep_diff(state_of(folder, self.model), new_state)
            except Exception as e:  # noqa: BLE001
                dd = [f"restore raises {type(e).__name__}: {e}"[:200]]
        self.res.stats["save-on-top-of-crash-state"] += 1
        if dd:
            self.res.add("save-after-crash-not-clean", f"json-backend:{site}",
                         f"{what}: a later save into that folder SUCCEEDS but the folder does not restore to the saved state: {dd[:3]}")

    def real_kills(self, F, old_files, old_state, new_state):  # noqa: N803
        """Validation against real process death: an unmodified interpreter performing the same save is SIGKILLed by
        strace at every write syscall that targets the checkpoint folder; each resulting folder is classified."""
        import re
        import subprocess
        import sys
        from pathlib import Path

        from sim.core import HOME
        res, scn = self.res, self.scn
        from sim.core import subprocess_ok
        if shutil.which("strace") is None or not subprocess_ok():
            res.stats["skipped:strace-not-available"] += 1
            return
        staging = self.new_folder("staging")
        self.cal.create_checkpoint(staging)
        m = self.cfg["model"]
        cmd = [sys.executable, str(HOME / "sim" / "strace_save.py"), staging, F, m["kind"], str(m["D"]), str(m.get("extreme", 0.0))]
        trace = str(Path(self.scratch) / "strace.out")

        def reset():
            if old_files:
                materialise(old_files, F)
            else:
                shutil.rmtree(F, ignore_errors=True)
        reset()
        subprocess.run(["strace", "-f", "-y", "-o", trace, "-e", "trace=write,pwrite64", *cmd], capture_output=True, timeout=300)
        lines = [ln for ln in Path(trace).read_text().splitlines() if re.search(r"\b(write|pwrite64)\(", ln) and "resumed" not in ln]
        # strace counts 'when=k' per tracee: index the write syscalls of the process that writes the folder
        pids = {ln.split()[0] for ln in lines if F in ln}
        if len(pids) != 1:
            res.stats["skipped:strace-not-usable"] += 1
            reset()
            return
        lines = [ln for ln in lines if ln.split()[0] in pids]
        hits = []
        count = {"write": 0, "pwrite64": 0}
        for ln in lines:
            name = "pwrite64" if "pwrite64(" in ln else "write"
            count[name] += 1
            if F in ln:
                hits.append((name, count[name]))        # the k-th invocation of that syscall by that process
        try:
            dry_ok = bool(hits) and not deep_diff(state_of(F, self.model), new_state)
        except Exception:  # noqa: BLE001
            dry_ok = False
        if not dry_ok:
            # ptrace may be forbidden here: the confirmation against real kills does not take place
            res.stats["skipped:strace-not-usable"] += 1
            reset()
            return
        for name, k in hits:
            reset()
            p = subprocess.run(["strace", "-f", "-o", "/dev/null", "-e", f"trace={name}", "-e", f"inject={name}:signal=SIGKILL:when={k}", *cmd],
                               capture_output=True, timeout=300)
            if p.returncode not in (-9, 137):
                res.stats["skipped:strace-injection-did-not-kill"] += 1
                continue
            res.stats["real-kill(strace SIGKILL at a write syscall)"] += 1
            try:
                got = state_of(F, self.model)
            except BaseException as e:  # noqa: BLE001
                if isinstance(e, (KeyboardInterrupt, SystemExit)):
                    raise
                res.stats["real-kill-state:error"] += 1
                continue
            if not deep_diff(got, new_state):
                res.stats["real-kill-state:new"] += 1
            elif old_state is not None and not deep_diff(got, old_state):
                res.stats["real-kill-state:old"] += 1
            else:
                res.add("hybrid-restore", "json-backend:real-kill", f"real process killed (SIGKILL via strace) at {name} syscall #{k} of the saving process: restore succeeds "
                                                                    f"with a state that is neither the previous nor the new checkpoint: {deep_diff(got, new_state)[:2]}")
        self.outcomes[("checked", "real-kill", "strace")] = len(hits)


def sqlite_args(cal, folder):
    return (folder, cal.param_grid.parameters_bounds, cal.param_grid.parameters_precision, cal.real_data, cal.ensemble_size, cal.N, cal.D,
            cal.convergence_precision, cal.verbose, cal.saving_folder, cal.random_state, cal.random_generator.bit_generator.state,
            cal.model.__name__, cal.scheduler, cal.loss_function, cal.current_batch_index, cal.params_samp, cal.losses_samp,
            cal.series_samp, cal.batch_num_samp, cal.method_samp)


class C06Sqlite(calsim.CalSim):
    def __init__(self, scn, res):
        super().__init__(scn, env={"folder": False, "n_jobs": 1})
        self.res = res

    def finish(self):
        import black_it.utils.sqlite3_checkpointing as sq
        scn, res = self.scn, self.res
        cal = self.cal
        base = self.new_folder("S")
        cal.calibrate(scn["k_old"])
        old_args = sqlite_args(cal, None)[1:]
        cal.calibrate(scn["k_new"])
        new_args = sqlite_args(cal, None)[1:]
        if scn.get("big"):
            # history long enough for the row to spill out of SQLite's page cache before the commit
            g = np.random.default_rng(scn["sim_seed"])
            big_old = g.normal(size=(3, 1, 110000, 2))
            big_new = np.concatenate([big_old, g.normal(size=(1, 1, 110000, 2))])
            old_args = old_args[:17] + (big_old,) + old_args[18:]
            new_args = new_args[:17] + (big_new,) + new_args[18:]
            res.stats["probe:sqlite-row-larger-than-page-cache"] += 1

        def same(loaded, args):
            return not any(deep_diff(a, b, "f") for a, b in zip(args, loaded))

        def fresh_old(folder):
            if os.path.exists(folder):
                shutil.rmtree(folder)
            if scn["prestate"] != "none":
                sq.save_calibrator_state(folder, *old_args)

        # count the calls of one complete save
        probe = SqliteProxy(sqlite3)
        seams = Seams()
        seams.replace_global("sqlite3", sqlite3, probe)
        n_adapt = [0]
        real_ad = sq.npndarray_to_sqlite_binary
        real_gz = sq.gz_ndarray_to_gzipped_sqlite_binary
        fault = {"at": None}

        def ad(x):
            k = n_adapt[0]
            n_adapt[0] += 1
            if fault["at"] == k:
                raise SqliteFault(f"injected in array adapter {k}")
            return real_ad(x)

        def gz(x):
            k = n_adapt[0]
            n_adapt[0] += 1
            if fault["at"] == k:
                raise SqliteFault(f"injected in array adapter {k}")
            return real_gz(x)
        sqlite3.register_adapter(np.ndarray, ad)
        sqlite3.register_adapter(sq.gz_ndarray, gz)
        try:
            fresh_old(base)
            sq.save_calibrator_state(base, *new_args)
            n_calls = probe.n
            calls = list(probe.calls)
            total_adapters = n_adapt[0]
            res.stats["sqlite-calls-per-save"] = n_calls
            # exception before each call
            for k in range(n_calls):
                fresh_old(base)
                probe.mode, probe.at, probe.n = "raise", k, 0
                n_adapt[0] = 0
                raised = False
                try:
                    sq.save_calibrator_state(base, *new_args)
                except SqliteFault:
                    raised = True
                probe.mode = None
                res.stats["sqlite-raise"] += 1
                self.judge(sq, base, old_args, new_args, same, f"exception before call {k} ({calls[k]})", "raise", calls[k], raised)
            # exception inside each array adapter (mid-INSERT)
            for k in range(total_adapters):
                fresh_old(base)
                probe.mode, probe.n = None, 0
                n_adapt[0] = 0
                fault["at"] = k
                raised = False
                try:
                    sq.save_calibrator_state(base, *new_args)
                except SqliteFault:
                    raised = True
                fault["at"] = None
                res.stats["sqlite-raise@adapter"] += 1
                self.judge(sq, base, old_args, new_args, same, f"exception in array adapter {k} during INSERT", "raise", "adapter", raised)
            # process death after each call
            for k in range(n_calls):
                fresh_old(base)
                pid = os.fork()
                if pid == 0:
                    try:
                        probe.mode, probe.at, probe.n = "kill", k, 0
                        sq.save_calibrator_state(base, *new_args)
                    finally:
                        os._exit(0)
                os.waitpid(pid, 0)
                res.stats["sqlite-kill"] += 1
                self.judge(sq, base, old_args, new_args, same, f"process death after call {k} ({calls[k]})", "kill", calls[k], True)
        finally:
            sqlite3.register_adapter(np.ndarray, real_ad)
            sqlite3.register_adapter(sq.gz_ndarray, real_gz)
            seams.undo()

    def judge(self, sq, base, old_args, new_args, same, what, mode, site, interrupted):
        res, scn = self.res, self.scn
        try:
            loaded = sq.load_calibrator_state(base)
        except BaseException as e:  # noqa: BLE001
            if isinstance(e, (KeyboardInterrupt, SystemExit)):
                raise
            if scn["prestate"] != "none" and interrupted:
                # (transactional back-end: a save that failed - by an exception or because its process died before the commit -
                # leaves the previous checkpoint loadable; after a death *at or after* the commit the new one loads, never an error)
                res.add("sqlite-previous-checkpoint-lost", f"sqlite:{mode}:{site.split(':')[0]}",
                        f"{what}: the save did not complete, and afterwards no checkpoint can be loaded any more ({type(e).__name__}: {str(e)[:120]})")
            res.stats["sqlite-outcome:error"] += 1
            return
        if same(loaded, new_args):
            res.stats["sqlite-outcome:new"] += 1
            if mode == "raise" and interrupted and site not in ("close",):
                # a save that raised must not have replaced the checkpoint... unless the commit had already happened
                if not site.startswith("close"):
                    res.add("sqlite-failed-save-took-effect", f"sqlite:{site.split(':')[0]}", f"{what}: the save raised but the new checkpoint is in place")
        elif scn["prestate"] != "none" and same(loaded, old_args):
            res.stats["sqlite-outcome:old"] += 1
        else:
            res.add("hybrid-restore", f"sqlite:{site.split(':')[0]}", f"{what}: load succeeds with a state that is neither the previous nor the new checkpoint")


class C06(Check):
    pid = "C06"
    level = "fault_enumeration"
    engine = "diskcrash"
    rule = ("one evaluation = one sampled scenario (previous folder: nothing / earlier checkpoint of the same run / checkpoint of a different "
            "run) whose next save is recorded and whose crash points are ENUMERATED: after every trace operation and inside every write every "
            "7th byte (thorough: every byte) for the JSON/CSV/HDF5 back-end; an exception before and a process death after every call, and "
            "an exception in every array adapter, for the SQLite back-end; distinct_nontrivial counts distinct (back-end, previous state, "
            "file or call, operation kind, outcome class) cells reached")
    assumptions = ["save_calibrator_state / load / restore_from_checkpoint, pandas, pickle, HDF5 library, SQLite library: real code",
                   "crash = process death: the folder holds a prefix of the save's operation sequence (no reordering of unsynced writes as after "
                   "power loss)", "sequentially written files are modelled as truncate + byte-prefix of the final content; HDF5 writes are the "
                   "(offset, bytes) the real library issued through h5py's file-object driver; the model is validated on every run by "
                   "replaying the trace and comparing all five files byte for byte"]
    quick = {"runs": 16, "wall": 420, "item_timeout": 900}
    thorough = {"runs": 400, "wall": 900, "item_timeout": 900}

    def gen(self, rng, tier, i):
        cfg = calsim.gen_config(rng, rl_prob=0.0, kinds=CHEAP, loss_kinds=["minkowski", "msm"], max_bs=2, max_dims=2)
        cfg["N"] = rng.choice([6, 10])
        cfg["sim_length"] = None
        cfg["model"]["D"] = rng.randint(1, 2)
        cfg["loss"]["opts"].pop("weights", None)
        cfg["loss"]["opts"].pop("filters", None)
        if cfg["loss"]["cls"] == "msm":
            cfg["N"] = 12
        cfg["ensemble"] = rng.randint(1, 2)
        backend = "sqlite" if rng.random() < 0.35 else "json"
        big = i % 8 == 3          # one scenario in eight: SQLite with a row larger than SQLite's page cache (~2 MB)
        if big:
            backend = "sqlite"
        scn = {"engine": "diskcrash", "backend": backend, "config": cfg, "ops": [], "k_old": rng.randint(1, 3), "k_new": rng.randint(1, 2),
               "prestate": rng.choice(["none", "same-run", "same-run", "other-run"] if backend == "json" else ["none", "same-run", "same-run"]),
               "byte_step": 7 if tier == "quick" else 1, "sim_seed": rng.randrange(2 ** 31), "big": big}
        if rng.random() < 0.4:
            scn["warm_saves"] = rng.randint(1, 2)
        if big:
            scn["prestate"] = "same-run"
        if backend == "json" and (i % 40 == 5 if tier == "thorough" else i == 5):
            scn["strace"] = True      # confirmation against real SIGKILLs (one scenario per 40; one per quick run)
            scn["prestate"] = "same-run"
        if scn["prestate"] == "other-run":
            oc = copy.deepcopy(cfg)
            oc["ensemble"] = cfg["ensemble"] % 2 + 1
            oc["cal_seed"] = rng.randrange(2 ** 31)
            scn["other_config"] = oc
        return scn

    def run(self, scn):
        res = Result()
        if scn["backend"] == "json":
            sim = C06Sim(scn, res, scn.get("byte_step", 7)).run()
            for (cls, fname, kind), n in sim.outcomes.items():
                res.extra_keys.append(f"json:{scn['prestate']}:{fname}:{kind}:{cls}")
            res.sample = {"backend": "json", "prestate": scn["prestate"], "k_old": scn["k_old"], "k_new": scn["k_new"],
                          "crash_states": getattr(sim, "n_states", 0), "files_in_write_order": getattr(sim, "files_order", None),
                          "outcomes": {f"{c}/{f}/{k}": n for (c, f, k), n in sorted(sim.outcomes.items())}}
        else:
            sim = C06Sqlite(scn, res).run()
            for k, v in res.stats.items():
                if k.startswith("sqlite-outcome"):
                    res.extra_keys.append(f"sqlite:{scn['prestate']}:{k}")
            res.sample = {"backend": "sqlite", "prestate": scn["prestate"], "calls_per_save": res.stats.get("sqlite-calls-per-save")}
        if sim.op_results and sim.op_results[-1].get("exc"):
            pass
        res.digest = jdigest([sim.digest(), [(v["clause"], v["site"]) for v in res.violations], sorted(res.extra_keys)])
        return res

    def shrink(self, scn):
        for k in ("k_old", "k_new"):
            if scn[k] > 1:
                c = copy.deepcopy(scn)
                c[k] -= 1
                yield c
        if scn["prestate"] == "other-run":
            c = copy.deepcopy(scn)
            c["prestate"] = "same-run"
            yield c
        if scn.get("warm_saves"):
            c = copy.deepcopy(scn)
            c["warm_saves"] -= 1
            yield c
        for c in calsim.shrink_scn(scn):
            yield c


CHECK = C06()
