"""C19 - the bandit agent and reward follow their published update rules.

(1) exchange mode: real MABEpsilonGreedy and MABCalibrationEnv take part, from their own thread, in the
    simulated scheduler-agent exchange (rlsim) and are refined step by step against RefBandit;
(2) direct mode: op sequences on the agent (policy / learn / reseed / pickle-restart, with twins) and
    arbitrary, non-monotone observation sequences on the environment.
"""
from __future__ import annotations

import copy
import math
import pickle
import random

import numpy as np

from sim.compsim import quiet
from sim.core import Check, Result, jdigest
from sim.rlsim import RLRun
from sim.seams import import_all_black_it


def step_size(alpha, count):
    return 1.0 / count if alpha == -1 else alpha


def close(a, b):
    return a == b or math.isclose(a, b, rel_tol=1e-12, abs_tol=1e-300)


class RefBandit:
    def __init__(self, n, alpha, init):
        self.q = [float(init)] * n
        self.c = [0] * n
        self.alpha = alpha

    def learn(self, a, r):
        self.c[a] += 1
        self.q[a] += step_size(self.alpha, self.c[a]) * (r - self.q[a])


def ref_reward(ref_best, best_loss):
    if best_loss < ref_best:
        return (ref_best - best_loss) / ref_best, best_loss
    return 0.0, ref_best


class C19(Check):
    pid = "C19"
    level = "exploration"
    engine = "rlsim+compsim"
    rule = ("one evaluation = (exchange) one simulated multi-session exchange with the real epsilon-greedy agent and bandit environment on "
            "their own thread, 1-8 actions, constant and sample-average learning rates, eps in [0,1] incl. 0 and 1, sessions up to 60 "
            "batches (thorough 200), every learn/reward/policy call refined against the reference bandit; or (direct) an op sequence on the "
            "agent (policy/learn/reseed/pickle-restart, with a twin built with another constructor seed) plus a non-monotone observation "
            "sequence on the environment; non-trivial = at least 3 learn steps; distinct = distinct (mode, actions, alpha, eps, lengths)")
    assumptions = ["MABEpsilonGreedy, MABCalibrationEnv/CalibrationEnv, RLScheduler: real code", "loss sequences keep the reference best away from 0 "
                   "(the rule divides by it)", "estimates compared with relative tolerance 1e-12, so an algebraically equal refactoring is not an alarm"]
    quick = {"runs": 4000, "wall": 150, "item_timeout": 200}
    thorough = {"runs": 60000, "wall": 900, "item_timeout": 120}

    def gen(self, rng, tier, i):
        n_actions = rng.randint(1, 8)
        agent = {"kind": "eps", "eps": rng.choice([0.0, 0.0, 0.1, 0.5, 1.0, round(rng.random(), 3)]),
                 "alpha": rng.choice([-1, -1, 0.1, 0.5, 1.0, round(rng.random(), 3)]), "init": rng.choice([0.0, 0.0, 1.0, -0.5, 0, 1, 2]),
                 "seed": rng.randrange(2 ** 31)}
        if rng.random() < 0.5:
            # exchange mode
            long = rng.random() < 0.2
            top = (200 if tier == "thorough" else 60) if long else 6
            sessions = []
            level = rng.choice([1.0, 7.0, 250.0])
            for _ in range(rng.randint(1, 3)):
                sess = []
                for _ in range(rng.randint(1, top)):
                    level *= rng.choice([0.5, 0.9, 1.0, 1.2, 0.97, 2.0])
                    sess.append([round(level * (1 + 0.2 * rng.random()), 9) for _ in range(rng.randint(1, 2))])
                sessions.append(sess)
            samplers = ["h"] + [rng.choice("ur") for _ in range(n_actions - 1)]
            rng.shuffle(samplers)
            cfg = {"samplers": samplers, "agent": agent, "sessions": sessions, "use_ctx": True, "sched_seed": rng.randrange(1000),
                   "param_seed": 1, "reseed": rng.random() < 0.7}
            sched = {"mode": rng.choice(["random", "pct", "mainfirst", "othersfirst"]), "seed": rng.randrange(2 ** 31),
                     "p_line": rng.choice([0.0, 0.0, 0.1])}
            return {"engine": "rlsim", "mode": "exchange", "config": cfg, "sched": sched}
        ops = []
        for _ in range(rng.randint(3, 40)):
            u = rng.random()
            if u < 0.45:
                ops.append(["policy"])
            elif u < 0.85:
                ops.append(["learn", rng.randrange(n_actions), rng.choice([0.0, 0.0, 1.0, round(rng.random(), 6), -0.25])])
            elif u < 0.93:
                ops.append(["reseed", rng.randrange(2 ** 31)])
            else:
                ops.append(["restart"])
        obs = []
        level = rng.choice([1.0, 40.0])
        for _ in range(rng.randint(2, 25)):
            level *= rng.choice([0.5, 0.9, 1.0, 1.5, 2.0, 0.99])
            obs.append(round(level, 9))
        v = rng.random()
        if v < 0.1:
            # the best loss reaches exactly zero; nothing after it improves on it (the rule then gives reward 0, no division)
            k = rng.randrange(1, len(obs))
            obs = obs[:k] + [0.0] + [abs(x) for x in obs[k:]]
        elif v < 0.2:
            # negative losses (e.g. a negative log-likelihood): the stated formula applies unchanged
            obs = [-x for x in obs]
        return {"engine": "compsim", "mode": "direct", "n_actions": n_actions, "agent": agent, "ops": ops, "obs": obs,
                "twin_ctor_seed": rng.choice([None, rng.randrange(2 ** 31)])}

    # ------------------------------------------------------------------------------------
    def run_exchange(self, scn, res):
        cfg = scn["config"]
        r = RLRun(cfg, scn["sched"]).run()
        res.digest = r.log.digest()
        if r.outcome is not None or r.thread_excs:
            res.add("exchange-failed", (r.outcome or r.thread_excs[0])[0], f"exchange did not complete: {r.outcome} {r.thread_excs[:1]}")
            return 0
        a = cfg["agent"]
        n = len(cfg["samplers"])
        ref = RefBandit(n, a["alpha"], a["init"])
        for k, (_t, act, rew, q0, c0, q1, c1) in enumerate(r.learn_calls):
            if not (0 <= act < n):
                res.add("invalid-action", "learn", f"learn #{k} with action {act} outside 0..{n - 1}")
                return k
            ref.learn(act, rew)
            if c1 != ref.c:
                res.add("count-update", "sample-average" if a["alpha"] == -1 else "constant", f"learn #{k} (action {act}): counts {c0} -> {c1}, reference {ref.c}")
                return k
            for j in range(n):
                if not close(q1[j], ref.q[j]):
                    which = "rewarded-arm" if j == act else "other-arm"
                    res.add("estimate-update", f"{'sample-average' if a['alpha'] == -1 else 'constant'}:{which}",
                            f"learn #{k} (action {act}, reward {rew!r}, alpha {a['alpha']}): Q[{j}] {q0[j]!r} -> {q1[j]!r}, rule gives {ref.q[j]!r}")
                    return k
        ref_best = None
        for k, (best_loss, before, rew, after) in enumerate(r.reward_calls):
            if ref_best is None:
                ref_best = before
            want, nb = ref_reward(ref_best, best_loss)
            if not close(rew, want) or not close(after, nb):
                res.add("reward-rule", "improving" if best_loss < ref_best else "non-improving",
                        f"observation #{k}: best loss {best_loss!r} against reference {ref_best!r}: reward {rew!r} (rule {want!r}), reference moved to {after!r} (rule {nb!r})")
                return k
            ref_best = nb
        for k, ((_t, act), q) in enumerate(zip(r.policy_calls, r.policy_q)):
            if not (0 <= act < n):
                res.add("invalid-action", "policy", f"policy #{k} returned {act}, valid indices are 0..{n - 1}")
                return k
            if a["eps"] == 0 and q and q[act] != max(q):
                res.add("greedy-choice", "eps0", f"policy #{k} with eps=0 chose action {act} (estimate {q[act]!r}) while the maximal estimate is {max(q)!r}: {q}")
                return k
        res.stats["learn-steps"] += len(r.learn_calls)
        res.stats["reward-observations"] += len(r.reward_calls)
        res.stats["policy-calls"] += len(r.policy_calls)
        res.stats["preempt@thread"] += r.switches
        if any(rc[2] == 0.0 for rc in r.reward_calls):
            res.stats["probe:non-improving-observation"] += 1
        return len(r.learn_calls)

    def run_direct(self, scn, res):
        import_all_black_it()
        from black_it.samplers.halton import HaltonSampler
        from black_it.schedulers.rl.agents.epsilon_greedy import MABEpsilonGreedy
        from black_it.schedulers.rl.envs.mab import MABCalibrationEnv
        from black_it.schedulers.rl.rl_scheduler import RLScheduler
        a = scn["agent"]
        n = scn["n_actions"]

        def mk(seed):
            return MABEpsilonGreedy(n, alpha=a["alpha"], eps=a["eps"], initial_values=a["init"], random_state=seed)
        ag = mk(a["seed"])
        same = mk(a["seed"])                     # construct <-> construct: identical choices throughout
        other = mk(scn["twin_ctor_seed"])        # other constructor seed: identical choices after a common reseed
        reseeded = False
        ref = RefBandit(n, a["alpha"], a["init"])
        steps = 0
        trace = []
        for oi, op in enumerate(scn["ops"]):
            if op[0] == "policy":
                q = list(ag.Q)
                x = ag.policy(0)
                y = same.policy(0)
                z = other.policy(0)
                trace.append(int(x))
                if not (isinstance(x, (int, np.integer)) and 0 <= x < n):
                    res.add("invalid-action", "policy", f"op {oi}: policy returned {x!r}, valid indices are 0..{n - 1}")
                    return steps
                if x != y:
                    res.add("not-a-function-of-seed", "construct-twin", f"op {oi}: two agents built with seed {a['seed']} and fed the same rewards chose {x} and {y}")
                    return steps
                if reseeded and x != z:
                    res.add("not-a-function-of-seed", "reseed-twin", f"op {oi}: after both were reseeded identically and fed the same rewards, agents chose {x} and {z} "
                                                                     f"(constructor seeds {a['seed']} / {scn['twin_ctor_seed']})")
                    return steps
                if a["eps"] == 0 and q[x] != max(q):
                    res.add("greedy-choice", "eps0", f"op {oi}: eps=0 chose action {x} with estimate {q[x]!r}, maximal estimate {max(q)!r}: {q}")
                    return steps
            elif op[0] == "learn":
                _, act, rew = op
                q0 = list(ag.Q)
                for g in (ag, same, other):
                    g.learn(0, act, rew, 0)
                ref.learn(act, rew)
                steps += 1
                if list(ag.actions_count) != ref.c:
                    res.add("count-update", "sample-average" if a["alpha"] == -1 else "constant", f"op {oi}: counts {list(ag.actions_count)}, reference {ref.c}")
                    return steps
                for j in range(n):
                    if not close(ag.Q[j], ref.q[j]):
                        which = "rewarded-arm" if j == act else "other-arm"
                        res.add("estimate-update", f"{'sample-average' if a['alpha'] == -1 else 'constant'}:{which}",
                                f"op {oi} learn(action {act}, reward {rew!r}, alpha {a['alpha']}): Q[{j}] {q0[j]!r} -> {ag.Q[j]!r}, rule gives {ref.q[j]!r}")
                        return steps
            elif op[0] == "reseed":
                for g in (ag, same, other):
                    g.random_state = op[1]
                reseeded = True
                res.stats["reseed@agent"] += 1
            elif op[0] == "restart":
                ag = pickle.loads(pickle.dumps(ag))
                res.stats["restart@agent"] += 1
        # environment: reference set by the scheduler's first update, then arbitrary observations
        env = MABCalibrationEnv(nb_samplers=n)
        sch = RLScheduler([HaltonSampler(1)] * 1, agent=mk(1), env=env, random_state=0)
        obs = scn["obs"]
        sch.update(0, np.zeros((1, 2)), np.array([obs[0]]), None)
        ref_best = obs[0]
        for k, x in enumerate(obs[1:]):
            want, nb = ref_reward(ref_best, x)
            try:
                rew = env.get_reward(np.zeros(2), x)
            except Exception as e:  # noqa: BLE001
                res.add("reward-rule", f"raises:{type(e).__name__}",
                        f"observation #{k + 1} = {x!r} against reference best {ref_best!r} (sequence {obs[:k + 2]}): get_reward raised "
                        f"{type(e).__name__}: {e}; the rule gives {want!r}")
                return steps
            if not close(rew, want):
                res.add("reward-rule", "improving" if x < ref_best else "non-improving",
                        f"observation #{k + 1} = {x!r} against reference best {ref_best!r} (sequence {obs[:k + 2]}): reward {rew!r}, rule gives {want!r}")
                return steps
            if x >= ref_best:
                res.stats["probe:non-improving-observation"] += 1
            ref_best = nb
        res.stats["learn-steps"] += steps
        res.stats["reward-observations"] += len(obs) - 1
        res.digest = jdigest([trace, list(ag.Q), list(ag.actions_count)])
        return steps

    def run(self, scn):
        res = Result()
        with quiet():
            if scn["mode"] == "exchange":
                k = self.run_exchange(scn, res)
                a = scn["config"]["agent"]
                key = ("exchange", len(scn["config"]["samplers"]), a["alpha"], a["eps"], [len(s) for s in scn["config"]["sessions"]])
            else:
                k = self.run_direct(scn, res)
                a = scn["agent"]
                key = ("direct", scn["n_actions"], a["alpha"], a["eps"], len(scn["ops"]), len(scn["obs"]))
        if k >= 3:
            res.key = jdigest(key)
        if not res.digest:
            res.digest = jdigest([(v["clause"], v["site"]) for v in res.violations])
        res.sample = {k2: v for k2, v in scn.items() if k2 not in ("verif_seed", "run_index", "property")}
        if scn["mode"] == "exchange":
            res.sample = {"mode": "exchange", "agent": scn["config"]["agent"], "samplers": scn["config"]["samplers"],
                          "session_lengths": [len(s) for s in scn["config"]["sessions"]], "sched": scn["sched"]}
        return res

    def shrink(self, scn):
        if scn["mode"] == "direct":
            for i in range(len(scn["ops"]) - 1, -1, -1):
                c = copy.deepcopy(scn)
                del c["ops"][i]
                yield c
            if len(scn["obs"]) > 2:
                for i in range(len(scn["obs"]) - 1, 0, -1):
                    c = copy.deepcopy(scn)
                    del c["obs"][i]
                    yield c
            if scn["n_actions"] > 1 and all(o[0] != "learn" or o[1] < scn["n_actions"] - 1 for o in scn["ops"]):
                c = copy.deepcopy(scn)
                c["n_actions"] -= 1
                yield c
        else:
            cfg = scn["config"]
            for mode in ("mainfirst",):
                if scn["sched"]["mode"] != mode:
                    c = copy.deepcopy(scn)
                    c["sched"] = {"mode": mode, "seed": 0}
                    yield c
            for i in range(len(cfg["sessions"]) - 1, -1, -1):
                if len(cfg["sessions"]) > 1:
                    c = copy.deepcopy(scn)
                    del c["config"]["sessions"][i]
                    yield c
            for i, s in enumerate(cfg["sessions"]):
                if len(s) > 1:
                    for cut in (len(s) // 2, len(s) - 1):
                        c = copy.deepcopy(scn)
                        c["config"]["sessions"][i] = s[:cut]
                        yield c


CHECK = C19()
