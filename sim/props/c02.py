"""C02 - the recorded history is aligned, truthful and append-only."""
from __future__ import annotations

import copy

from sim import calsim
from sim.core import Check, Result, jdigest


class C02Sim(calsim.CalSim):
    def run(self):
        self.hist_findings = []
        return super().run()

    def build(self, cfg=None, folder=None):
        cal = super().build(cfg, folder)
        self.pristine = copy.deepcopy(cal.loss_function)
        return cal

    def do_calibrate(self, n):
        r = super().do_calibrate(n)
        for f in calsim.check_history(self, self.pristine, r["ret"]):
            self.hist_findings.append(f)
        return r


class C02(Check):
    pid = "C02"
    level = "exploration"
    engine = "calsim"
    rule = ("one evaluation = one simulated life of a real Calibrator: generated configuration (1-6 samplers of the nine classes, "
            "round-robin or RL, any built-in loss, ensemble 1-3, models that may return inf/huge values, sim_length equal to or "
            "different from the data length, n_jobs 1/2/4 under the simulated pool) and 1-4 calibrate(n) calls; after every call "
            "the five arrays are rebuilt from the seam recordings (sampler returns, model dispatch/completion, loss evaluations) "
            "and compared; earlier rows are re-hashed at every seam event; non-trivial = at least two completed batches; "
            "distinct = distinct (line-up, loss, ensemble, op list, n_jobs)")
    assumptions = ["Calibrator, samplers, losses, schedulers: real code; joblib.Parallel replaced by SimParallel (ordering/isolation model); "
                   "RL thread under the baton scheduler", "model = harness model with outputs unique per seed"]
    quick = {"runs": 900, "wall": 300, "item_timeout": 200}
    thorough = {"runs": 30000, "wall": 900, "item_timeout": 120}

    def gen(self, rng, tier, i):
        cfg = calsim.gen_config(rng, rl_prob=0.2, extreme_prob=0.3, feature=calsim.SAMPLER_KINDS[i % 9])
        ops = [["calibrate", rng.randint(1, 4)] for _ in range(rng.randint(1, 4))]
        if rng.random() < 0.15:
            ops.insert(rng.randrange(0, len(ops) + 1), ["calibrate", 0])       # "give me the results so far"
        if rng.random() < 0.15:
            calsim.make_scripted_convergence(cfg, rng)
        elif rng.random() < 0.25:
            cfg["model"]["mutates"] = True          # the model writes into the parameter array it receives
            cfg["ensemble"] = rng.choice([1, 1, 2])
        env = {"n_jobs": rng.choice([1, 1, 2, 4]), "verbose": rng.random() < 0.3, "folder": rng.random() < 0.2,
               }
        env["sched"], env["trace_lines"] = calsim.gen_sched(rng, cfg["scheduler"]["kind"] == "rl")
        return {"engine": "calsim", "config": cfg, "env": env, "ops": ops, "sim_seed": rng.randrange(2 ** 31)}

    def run(self, scn):
        res = Result()
        sim = C02Sim(scn).run()
        for clause, site, detail in sim.hist_findings:
            res.add(clause, site, detail)
        for (pid, clause, site, detail) in sim.mon:
            if pid == "C02":
                res.add(clause, site, detail)
        res.stats.update(sim.stats)
        done = len(sim.completed_batches()) if sim.cal is not None else 0
        res.stats["batches"] += done
        res.stats["calibrate-calls"] += len(sim.op_results)
        res.stats["calibrate-raised"] += sum(1 for r in sim.op_results if r["exc"])
        res.stats["probe:stopped-early-at-convergence"] += sum(
            1 for r, op in zip(sim.op_results, scn["ops"]) if not r["exc"] and r["snap"]["batch_index"] < 0 + sum(o[1] for o in scn["ops"][:scn["ops"].index(op) + 1]))
        for r in sim.op_results:
            if r["exc"]:
                res.stats["exc:" + r["exc"][0]] += 1
        if done >= 2:
            c = scn["config"]
            res.key = jdigest([[s["cls"] for s in c["lineup"]], [s["batch_size"] for s in c["lineup"]], c["loss"]["cls"],
                               c["ensemble"], scn["ops"], scn["env"]["n_jobs"], c["scheduler"]["kind"]])
        res.digest = sim.digest()
        c = scn["config"]
        res.sample = {"lineup": [(s["cls"], s["batch_size"]) for s in c["lineup"]], "scheduler": c["scheduler"]["kind"],
                      "loss": c["loss"], "ensemble": c["ensemble"], "model": c["model"], "ops": scn["ops"], "env": scn["env"],
                      "outcomes": [r["exc"] for r in sim.op_results], "rows": int(sim.cal.n_sampled_params) if sim.cal else None}
        return res

    def shrink(self, scn):
        yield from calsim.shrink_scn(scn)


CHECK = C02()
