"""C04 - a checkpoint restores the calibrator state exactly.

Op histories {calibrate(n), create_checkpoint(B), restore, new run in the same folder, set_samplers}
on a simulated folder, both scheduler kinds, extreme model outputs; oracle = RefCheckpoint deep
bitwise comparison of the live object with what restore_from_checkpoint returns.  The SQLite
back-end (which the Calibrator does not call) is driven through its module API with the same state.
"""
from __future__ import annotations

import copy
import random

import numpy as np

from sim import calsim
from sim.core import Check, Result, jdigest
from sim.deep import calibrator_state, deep_diff


def site_of(diff_line: str):
    """coarse, stable site from the first differing path"""
    p = diff_line.split(":")[0]
    for key in ("series_samp", "losses_samp", "params_samp", "batch_num_samp", "method_samp", "random_generator", "scheduler", "loss_function",
                "n_sampled_params", "current_batch_index", "samplers_id_table"):
        if key in p:
            return key
    return p.strip("[]'\".")[:30] or "state"


class C04Sim(calsim.CalSim):
    def run(self):
        self.findings = []
        return super().run()

    def compare_with_restore(self, folder, clause, when):
        from black_it.calibrator import Calibrator
        live = self.cal
        try:
            rest = Calibrator.restore_from_checkpoint(folder, model=self.model)
        except Exception as e:  # noqa: BLE001
            self.findings.append((clause, f"restore-raises:{type(e).__name__}", f"{when}: restoring the checkpoint raised {type(e).__name__}: {str(e)[:200]}"))
            return
        self.stats["restores-compared"] += 1
        d = deep_diff(calibrator_state(live), calibrator_state(rest))
        if d:
            self.findings.append((clause, site_of(d[0]), f"{when}: restored state differs from the live one in {len(d)} place(s): {d[:4]}"))

    def do_calibrate(self, n):
        r = super().do_calibrate(n)
        if self.folder is not None and r["exc"] is None:
            self.compare_with_restore(self.folder, "folder-lacks-returned-state", f"after calibrate({n}) returned (history {self.cal.n_sampled_params} rows)")
        return r

    def do_op(self, op):
        if op[0] == "checkpoint":
            r = super().do_op(op)
            if r["exc"] is not None:
                self.findings.append(("checkpoint-raises", r["exc"][0], f"create_checkpoint raised {r['exc']}"))
            else:
                self.compare_with_restore(self.named_folder(op[1]), "restore-inexact", f"explicit create_checkpoint with {self.cal.n_sampled_params} rows")
            return r
        return super().do_op(op)


def sqlite_roundtrip(scn, res: Result):
    """drive black_it.utils.sqlite3_checkpointing directly with state tuples taken from a live calibrator"""
    import shutil
    import tempfile

    import black_it.utils.sqlite3_checkpointing as sq
    sim = calsim.CalSim(scn, env={"folder": False}, ops=[["calibrate", scn["ops"][0][1]]])
    states = []

    def grab(cal):
        return (cal.param_grid.parameters_bounds, cal.param_grid.parameters_precision, cal.real_data, cal.ensemble_size, cal.N, cal.D,
                cal.convergence_precision, cal.verbose, cal.saving_folder, cal.random_state, cal.random_generator.bit_generator.state,
                cal.model.__name__, cal.scheduler, cal.loss_function, cal.current_batch_index, cal.params_samp, cal.losses_samp,
                cal.series_samp, cal.batch_num_samp, cal.method_samp)
    names = ("parameters_bounds", "parameters_precision", "real_data", "ensemble_size", "N", "D", "convergence_precision", "verbose",
             "saving_file", "initial_random_seed", "random_generator_state", "model_name", "scheduler", "loss_function",
             "current_batch_index", "params_samp", "losses_samp", "series_samp", "batch_num_samp", "method_samp")

    class S(calsim.CalSim):
        def finish(self2):
            d = tempfile.mkdtemp(prefix="verif-sqlite-")
            try:
                if scn.get("sqlite_prestate"):
                    # the folder already holds a checkpoint of something else
                    sq.save_calibrator_state(d, np.zeros(2), np.ones(2), np.zeros((3, 1)), 1, 3, 1, None, False, None, 0,
                                             np.random.default_rng(0).bit_generator.state, "m", [], "loss", 7,
                                             np.zeros((5, 1)), np.zeros(5), np.zeros((5, 1, 3, 1)), np.zeros(5, dtype=int), np.zeros(5, dtype=int))
                    res.stats["stale-folder"] += 1
                st = grab(self2.cal)
                sq.save_calibrator_state(d, *st)
                back = sq.load_calibrator_state(d)
                res.stats["sqlite-roundtrips"] += 1
                for nm, a, b in zip(names, st, back):
                    dd = deep_diff(a, b, nm)
                    if dd:
                        res.add("sqlite-restore-inexact", nm, f"SQLite back-end: field {nm} differs after save+load: {dd[:3]}")
            finally:
                shutil.rmtree(d, ignore_errors=True)
    S(scn, env={"folder": False}, ops=[["calibrate", scn["ops"][0][1]]]).run()


class C04(Check):
    pid = "C04"
    level = "exploration"
    engine = "calsim"
    rule = ("one evaluation = one op history over {calibrate(n), create_checkpoint(other folder), restore+continue, new run in the same "
            "folder (same shapes / other ensemble / other length / other dims), set_samplers} on a real Calibrator with a simulated "
            "folder (round-robin or RL under a seeded thread schedule, models producing inf/1e308/subnormal/17-digit values, zero-row "
            "calibrators), every written checkpoint restored and deep-compared with the live object; or one SQLite save/load round trip "
            "of a live state through the module API; non-trivial = at least one restore compared on a non-empty history; distinct = "
            "distinct (scheduler, line-up, op kinds, float regime)")
    assumptions = ["Calibrator, json_pandas_checkpointing, sqlite3_checkpointing, pandas, h5py, pickle: real code on real files in a scratch folder",
                   "fitted third-party models inside samplers are compared by type only (behavioural equivalence is C05)",
                   "RL: queues/threads are transient by design and not part of the compared state"]
    quick = {"runs": 800, "wall": 300, "item_timeout": 300}
    thorough = {"runs": 20000, "wall": 900, "item_timeout": 180}

    def gen(self, rng, tier, i):
        cfg = calsim.gen_config(rng, rl_prob=0.3, extreme_prob=0.4, feature=calsim.SAMPLER_KINDS[i % 9])
        if rng.random() < 0.15:
            return {"engine": "sqlite", "config": cfg, "env": {"folder": False}, "ops": [["calibrate", rng.randint(1, 4)]],
                    "sqlite_prestate": rng.random() < 0.5, "sim_seed": rng.randrange(2 ** 31)}
        ops = []
        if rng.random() < 0.12:
            calsim.make_scripted_convergence(cfg, rng)     # calibrate() may return early: the folder must hold the stopping batch
        elif rng.random() < 0.15:
            cfg["model"]["scale"] = rng.choice([1e-9, 1e-12, 1e-30])     # series far below any absolute tolerance
            cfg["loss"] = {"cls": "minkowski", "opts": {}}
        if rng.random() < 0.06:
            # many parameters (column order of the stored parameters matters from the 11th on)
            cfg["space"] = calsim.gen_space(rng, rng.randint(11, 13))
            cfg["lineup"] = calsim.gen_lineup(rng, n=rng.randint(1, 3), kinds=["uniform", "halton", "rseq", "pso", "bestbatch"],
                                              rl=cfg["scheduler"]["kind"] == "rl")
        if rng.random() < 0.15:
            ops.append(["checkpoint", "Z"])          # zero-row calibrator
        for _ in range(rng.randint(1, 4)):
            u = rng.random()
            if u < 0.55 or not ops:
                ops.append(["calibrate", rng.randint(1, 4)])
            elif u < 0.7:
                ops.append(["checkpoint", rng.choice("AB")])
            elif u < 0.76:
                ops.append(["restore"])
                ops.append(["calibrate", rng.randint(1, 3)])
            elif u < 0.82:
                # roll back: back-up, go on, return to the back-up and continue into the original folder
                ops.append(["checkpoint", "R"])
                ops.append(["calibrate", rng.randint(1, 3)])
                ops.append(["restore", "R"])
                ops.append(["calibrate", rng.randint(1, 2)])
            elif u < 0.93:
                c2 = copy.deepcopy(cfg)
                variant = rng.choice(["same-run-again", "same-run-again", "other-seed", "other-ensemble", "other-length", "other-dims", "other-lineup",
                                      "other-loss", "other-loss"])
                if variant != "same-run-again":
                    c2["cal_seed"] = rng.randrange(2 ** 31)
                if variant == "other-ensemble":
                    c2["ensemble"] = cfg["ensemble"] % 3 + 1
                elif variant == "other-length":
                    c2["N"] = cfg["N"] + 4
                    c2["sim_length"] = None
                elif variant == "other-dims":
                    c2["space"] = calsim.gen_space(rng, len(cfg["space"]["precision"]) % 4 + 1)
                elif variant == "other-loss":
                    c2["loss"] = calsim.gen_loss(rng, cfg["model"]["D"], [k for k in ("minkowski", "msm", "fourier") if k != cfg["loss"]["cls"]])
                    c2["sim_length"] = None
                elif variant == "other-lineup":
                    c2["lineup"] = calsim.gen_lineup(rng, rl=cfg["scheduler"]["kind"] == "rl")
                ops.append(["new_run", c2, variant])
                ops.append(["calibrate", rng.randint(1, 3)])
            else:
                ops.append(["set_samplers", calsim.gen_lineup(rng, n=rng.randint(1, 3))])
                ops.append(["calibrate", rng.randint(1, 2)])
        env = {"folder": True, "n_jobs": 1, "verbose": rng.random() < 0.3,
               }
        env["sched"], env["trace_lines"] = calsim.gen_sched(rng, cfg["scheduler"]["kind"] == "rl")
        return {"engine": "calsim", "config": cfg, "env": env, "ops": ops, "sim_seed": rng.randrange(2 ** 31)}

    def run(self, scn):
        res = Result()
        if scn["engine"] == "sqlite":
            sqlite_roundtrip(scn, res)
            res.key = "sqlite:" + jdigest([scn["config"]["lineup"], scn["sqlite_prestate"]])
            res.digest = jdigest([[(v["clause"], v["site"]) for v in res.violations], dict(res.stats)])
            res.sample = {"engine": "sqlite", "prestate": scn["sqlite_prestate"]}
            return res
        sim = C04Sim(scn).run()
        for clause, site, detail in sim.findings:
            res.add(clause, site, detail)
        res.stats.update(sim.stats)
        kinds = [o[0] if o[0] != "new_run" else f"new_run:{o[2]}" for o in scn["ops"]]
        for k in kinds:
            res.stats[f"op:{k}"] += 1
        if sim.stats["restores-compared"] and sim.cal is not None and sim.cal.n_sampled_params > 0:
            c = scn["config"]
            res.key = jdigest([c["scheduler"]["kind"], [s["cls"] for s in c["lineup"]], kinds, c["model"].get("extreme", 0) > 0])
        res.digest = jdigest([sim.digest(), [f[:2] for f in sim.findings]])
        c = scn["config"]
        res.sample = {"scheduler": c["scheduler"]["kind"], "lineup": [(s["cls"], s["batch_size"]) for s in c["lineup"]], "ops": kinds,
                      "model": c["model"], "outcomes": [r["exc"] for r in sim.op_results]}
        return res

    def shrink(self, scn):
        if scn["engine"] == "sqlite":
            return
        for c in calsim.shrink_scn(scn):
            if c["ops"] and c["ops"][0][0] not in ("restore",):
                yield c


CHECK = C04()
