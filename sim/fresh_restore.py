"""Fresh-interpreter continuation for C05: restore a calibrator from its folder in a brand-new process (no simulator
seams, nothing in memory), run n more batches (which checkpoints them) and exit.
Usage: python fresh_restore.py <folder> <model kind> <model D> <model extreme> <n>"""
import contextlib
import io
import os
import sys

HOME = os.path.dirname(os.path.dirname(os.path.abspath(__file__)))
sys.path.insert(0, HOME)
sys.path.insert(0, os.environ.get("VERIF_REPO", "/repo"))


def main():
    from black_it.calibrator import Calibrator
    from sim.models import HarnessModel
    folder, kind, D, extreme, n = sys.argv[1], sys.argv[2], int(sys.argv[3]), float(sys.argv[4]), int(sys.argv[5])  # noqa: N806
    model = HarnessModel(kind, D, extreme)
    with contextlib.redirect_stdout(io.StringIO()):
        cal = Calibrator.restore_from_checkpoint(folder, model=model)
        cal.calibrate(n)
    print(f"FRESH-OK rows={cal.n_sampled_params} batch_index={cal.current_batch_index}", flush=True)


if __name__ == "__main__":
    main()
