"""Seam installer and the non-thread seams: worker pool (S1), clock (S10), class-level recorders
(S8, S9), third-party thread pools (S11).  Nothing here edits /repo: names in black-it's module
namespaces are replaced for the duration of one run and restored afterwards.
"""
from __future__ import annotations

import importlib
import pickle
import pkgutil
import sys

import cloudpickle
import numpy as np


_MODS = None


def import_all_black_it():
    """Import every black_it module once (so that every namespace a seam must reach exists)."""
    global _MODS
    if _MODS is not None:
        return _MODS
    import black_it  # noqa: PLC0415
    mods = [black_it]
    for m in pkgutil.walk_packages(black_it.__path__, "black_it."):
        if ".plot" in m.name:
            continue
        try:
            mods.append(importlib.import_module(m.name))
        except Exception:  # noqa: BLE001
            pass
    _MODS = mods
    return mods


def black_it_modules():
    import_all_black_it()
    # modules imported later (e.g. black_it.plot) are picked up too
    known = {m.__name__ for m in _MODS}
    for name, mod in list(sys.modules.items()):
        if mod is not None and name.startswith("black_it.") and name not in known:
            _MODS.append(mod)
    return _MODS


class InjectedFault(Exception):
    """The exception the simulator raises from user code (model / loss / sampler) at a chosen invocation."""


class InjectedInterrupt(KeyboardInterrupt):
    """The same injected failure as a non-Exception BaseException (Ctrl-C / SystemExit class of faults)."""


class SimCrash(BaseException):
    """Process death: the live object is abandoned, only the folder survives."""


class Seams:
    def __init__(self):
        self._undo = []
        self.engaged = {}

    def replace_global(self, label, target, replacement, where="black_it"):
        n = 0
        for mod in black_it_modules():
            for k, v in list(vars(mod).items()):
                if v is target:
                    setattr(mod, k, replacement)
                    self._undo.append((mod, k, v, True))
                    n += 1
        self.engaged[label] = n
        return n

    def set_attr(self, obj, name, value):
        had = name in vars(obj) if hasattr(obj, "__dict__") else hasattr(obj, name)
        old = vars(obj).get(name) if had else None
        setattr(obj, name, value)
        self._undo.append((obj, name, old, had))

    def undo(self):
        for obj, name, old, had in reversed(self._undo):
            try:
                if had:
                    setattr(obj, name, old)
                else:
                    delattr(obj, name)
            except Exception:  # noqa: BLE001
                pass
        self._undo.clear()


def all_subclasses(cls):
    seen = []
    stack = [cls]
    while stack:
        c = stack.pop()
        for s in c.__subclasses__():
            if s not in seen:
                seen.append(s)
                stack.append(s)
    return seen


def wrap_methods(seams: Seams, base, name, make_wrapper):
    """Wrap `name` wherever it is *defined* in base or a subclass (class-level: pickles are unaffected)."""
    n = 0
    for cls in [base, *all_subclasses(base)]:
        if name in vars(cls):
            orig = vars(cls)[name]
            if getattr(orig, "__isabstractmethod__", False):
                continue
            if isinstance(orig, (staticmethod, classmethod)):
                continue
            seams.set_attr(cls, name, make_wrapper(orig, cls))
            n += 1
    return n


class SimClock:
    """Stands for the `time` module in calibrator.py.  Monotone steps plus scripted jumps."""

    def __init__(self, jumps=None, start=1.7e9):
        self.t = start
        self.n = 0
        self.jumps = dict(jumps or {})

    def time(self):
        self.n += 1
        self.t += 0.001
        if self.n in self.jumps:
            self.t += self.jumps[self.n]
        return self.t

    def __getattr__(self, name):
        import time as _t  # noqa: PLC0415
        return getattr(_t, name)


class SimParallel:
    """In-parent model of joblib.Parallel: lazy consumption of the task generator with a window of
    2*n_jobs, worker isolation by pickling (n_jobs>1), completion order chosen by the simulator,
    results returned in submission order, exceptions surfacing when the failing task completes."""

    def __init__(self, sim, n_jobs=None, return_as="list", **kw):
        self.sim = sim
        self.n_jobs = n_jobs
        self.return_as = return_as
        # a thread-based pool: the tasks of a batch share one interpreter (no pickling, shared module state) and interleave
        self.shared = kw.get("prefer") == "threads" or kw.get("backend") == "threading" or kw.get("require") == "sharedmem"

    # joblib.Parallel is also a context manager: a managed pool keeps its worker threads/processes alive between calls, until
    # __exit__ (or until a task raises, when joblib aborts and terminates the backend itself)
    def _pools(self):
        pools = getattr(self.sim, "open_pools", None)
        if pools is None:
            pools = self.sim.open_pools = []
        return pools

    def __enter__(self):
        n = self.n_jobs
        if n is not None and n not in (0, 1):
            self._pools().append(self)
            self.sim.stats["managed-pool-opened"] += 1
        return self

    def __exit__(self, *exc):
        pools = self._pools()
        if self in pools:
            pools.remove(self)
        return False

    def __call__(self, iterable):
        try:
            order, results = self._execute(iterable)
        except BaseException:
            self.__exit__(None, None, None)
            raise
        if self.return_as == "generator_unordered":
            return (results[i] for i in order)          # completion order, as joblib does
        if self.return_as == "generator":
            return (results[i] for i in range(len(order)))
        return [results[i] for i in range(len(order))]

    def _execute(self, iterable):
        sim = self.sim
        n_jobs = self.n_jobs
        if n_jobs is None or n_jobs == 0:
            n_jobs = 1
        if n_jobs < 0:
            n_jobs = 4
        it = iter(iterable)
        results = {}
        if n_jobs == 1:
            k = 0
            for func, args, kwargs in it:
                idx = sim.on_dispatch(k, func, args, kwargs)
                results[k] = sim.on_complete(idx, k, sim.run_task(idx, func, args, kwargs))
                k += 1
            return list(range(k)), results
        if self.shared and getattr(sim, "baton", None) is not None:
            return self._execute_threads(it, n_jobs)
        window = 2 * n_jobs
        inflight = []
        k = 0
        exhausted = False

        def refill():
            nonlocal k, exhausted
            while not exhausted and len(inflight) < window:
                try:
                    func, args, kwargs = next(it)
                except StopIteration:
                    exhausted = True
                    return
                idx = sim.on_dispatch(k, func, args, kwargs)
                blob = cloudpickle.dumps((func, args, kwargs))   # what a worker process would receive
                inflight.append((k, idx, blob))
                k += 1

        refill()
        order = []
        while inflight:
            j = sim.rng.randrange(min(n_jobs, len(inflight)))
            if j:
                sim.stats["reorder@workers"] += 1
            kk, idx, blob = inflight.pop(j)
            func, args, kwargs = pickle.loads(blob)
            sim.stats["isolated-task"] += 1
            ambient = np.random.get_state()  # noqa: NPY002     a worker process has its own module state
            try:
                res = sim.run_task(idx, func, args, kwargs)
            finally:
                np.random.set_state(ambient)  # noqa: NPY002
            res = pickle.loads(pickle.dumps(res))
            results[kk] = sim.on_complete(idx, kk, res)
            order.append(kk)
            refill()
        return order, results

    def _execute_threads(self, it, n_jobs):
        """waves of up to n_jobs baton-scheduled threads in this interpreter"""
        from sim.threads import SimThread
        sim = self.sim
        results, order, errors = {}, [], []
        k = 0
        exhausted = False
        while not exhausted:
            wave = []
            while len(wave) < n_jobs:
                try:
                    func, args, kwargs = next(it)
                except StopIteration:
                    exhausted = True
                    break
                wave.append((k, sim.on_dispatch(k, func, args, kwargs), func, args, kwargs))
                k += 1

            def work(kk, idx, func, args, kwargs):
                try:
                    res = sim.run_task(idx, func, args, kwargs)
                except BaseException as e:  # noqa: BLE001
                    errors.append((kk, e))
                    return
                results[kk] = sim.on_complete(idx, kk, res)
                order.append(kk)
            ths = [SimThread(sim.baton, target=work, args=w, name=f"pool-{w[0]}") for w in wave]
            for t in ths:
                t.start()
            for t in ths:
                t.join()
            sim.stats["shared-interpreter-wave"] += 1
            if errors:
                raise sorted(errors, key=lambda x: x[0])[0][1]
        return order, results
