"""rlsim: the RL scheduler / agent / environment exchange on two real threads under the baton
scheduler.  The harness plays the calibration loop; black-it's RLScheduler, CalibrationEnv and
agent run unmodified.  Used by C10 (protocol, schedules) and C19 (bandit refinement).
"""
from __future__ import annotations

import contextlib
import hashlib
import io
import random
import warnings
from collections import Counter

import numpy as np

from sim import peers
from sim.core import EventLog
from sim.seams import InjectedFault, Seams, import_all_black_it, wrap_methods
from sim.threads import Baton, Deadlock, QueueModuleShim, StepLimit, ThreadingShim


class RLRun:
    def __init__(self, cfg: dict, sched: dict, max_steps=60_000):
        self.cfg = cfg
        self.sched = sched
        self.max_steps = max_steps
        self.log = EventLog()
        self.stats = Counter()
        self.policy_calls = []     # (thread, action)
        self.policy_q = []         # estimates at the time of each policy call
        self.learn_calls = []      # (thread, action, reward, Q before, counts before, Q after, counts after)
        self.reward_calls = []     # (best_loss arg, curr_best before, reward, curr_best after)
        self.executed = []         # (session, batch_id, pos, cls, agent_chosen, best_before, best_after)
        self.leftovers = []        # per session: (in-queue content, out-queue content, live threads)
        self.outcome = None        # None | ("Deadlock"|"StepLimit"|exception type, text)
        self.qlog = []
        self.final_q = None
        self.final_counts = None
        self.thread_excs = []
        self.sync_hash = ""
        self.switches = 0
        self.steps = 0
        self.line_points = 0
        self.session_errors = []

    # ------------------------------------------------------------------ wrappers
    def _wrap_policy(self, orig, cls):
        run = self

        def policy(self_a, state):
            q0 = list(getattr(self_a, "Q", []))
            out = orig(self_a, state)
            run.policy_q.append(q0)
            run.policy_calls.append((run.baton.current.name, int(out)))
            run.log.add("policy", run.baton.current.name, int(out))
            return out
        return policy

    def _wrap_learn(self, orig, cls):
        run = self

        def learn(self_a, state, action, reward, next_state):
            q0 = list(getattr(self_a, "Q", []))
            c0 = list(getattr(self_a, "actions_count", []))
            r = orig(self_a, state, action, reward, next_state)
            run.learn_calls.append((run.baton.current.name, int(action), float(reward), q0, c0,
                                    list(getattr(self_a, "Q", [])), list(getattr(self_a, "actions_count", []))))
            run.log.add("learn", int(action), repr(float(reward)))
            return r
        return learn

    def _wrap_reward(self, orig, cls):
        run = self

        def get_reward(self_e, best_param, best_loss):
            before = self_e._curr_best_loss  # noqa: SLF001
            out = orig(self_e, best_param, best_loss)
            run.reward_calls.append((float(best_loss), before, float(out), self_e._curr_best_loss))  # noqa: SLF001
            return out
        return get_reward

    # ------------------------------------------------------------------ the run
    def run(self):
        with contextlib.redirect_stdout(io.StringIO()), warnings.catch_warnings():
            warnings.simplefilter("ignore")
            return self._run()

    def _run(self):
        import_all_black_it()
        import queue as _q
        import threading as _th

        from black_it.samplers.halton import HaltonSampler
        from black_it.samplers.random_uniform import RandomUniformSampler
        from black_it.samplers.r_sequence import RSequenceSampler
        from black_it.schedulers.rl.agents.base import Agent
        from black_it.schedulers.rl.agents.epsilon_greedy import MABEpsilonGreedy
        from black_it.schedulers.rl.envs.base import CalibrationEnv
        from black_it.schedulers.rl.envs.mab import MABCalibrationEnv
        from black_it.schedulers.rl.rl_scheduler import RLScheduler
        cfg = self.cfg
        sm = Seams()
        self.baton = b = Baton(self.sched, max_steps=self.max_steps)
        qshim = QueueModuleShim(b, log=lambda ev: self.qlog.append(ev[:4]))
        sm.replace_global("threading", _th, ThreadingShim(b))
        sm.replace_global("Queue", _q.Queue, qshim.Queue)
        sm.replace_global("queue", _q, qshim)
        wrap_methods(sm, Agent, "policy", self._wrap_policy)
        wrap_methods(sm, Agent, "learn", self._wrap_learn)
        wrap_methods(sm, CalibrationEnv, "get_reward", self._wrap_reward)
        try:
            classes = {"h": HaltonSampler, "u": RandomUniformSampler, "r": RSequenceSampler}
            samplers = [classes[c](batch_size=1, random_state=i) for i, c in enumerate(cfg["samplers"])]
            n_actions = len(samplers) + (0 if "h" in cfg["samplers"] else 1)
            a = cfg["agent"]
            if a["kind"] == "eps":
                agent = MABEpsilonGreedy(n_actions, alpha=a["alpha"], eps=a["eps"], initial_values=a.get("init", 0.0),
                                         random_state=a.get("seed", 0))
            else:
                agent = peers.ScriptedAgent([x % n_actions for x in a["script"]])
            env = MABCalibrationEnv(nb_samplers=n_actions)
            sch = RLScheduler(samplers, agent=agent, env=env, random_state=cfg.get("sched_seed", 0))
            self.agent, self.env, self.sch = agent, env, sch
            if cfg.get("reseed", True):
                sch.random_state = cfg.get("sched_seed", 0)     # what Calibrator.calibrate does at batch 0
            if self.sched.get("p_line", 0) > 0 or self.sched.get("trace", False):
                b.install_tracing(lambda fn: "black_it/schedulers/" in fn.replace("\\", "/"))
            batch_id = 0
            best = None
            rng = np.random.default_rng(cfg.get("param_seed", 0))
            try:
                for si, sess in enumerate(cfg["sessions"]):
                    fault_at = cfg.get("fault", {}).get(str(si))
                    try:
                        self._session(sch, si, sess, batch_id, best, rng, cfg.get("use_ctx", True), fault_at)
                    except InjectedFault:
                        self.stats["raise@session"] += 1
                    batch_id = self._batch_id
                    best = self._best
                    inq = sch._in_queue.peek_all() if hasattr(sch._in_queue, "peek_all") else None  # noqa: SLF001
                    outq = sch._out_queue.peek_all() if hasattr(sch._out_queue, "peek_all") else None  # noqa: SLF001
                    self.leftovers.append((si, [repr(x)[:40] for x in inq or []], [repr(x)[:40] for x in outq or []],
                                           b.live_sim_threads()))
            except (Deadlock, StepLimit) as e:
                self.outcome = (type(e).__name__, str(e))
            except Exception as e:  # noqa: BLE001
                self.outcome = (type(e).__name__, str(e)[:300])
            self.final_q = list(getattr(agent, "Q", []))
            self.final_counts = list(getattr(agent, "actions_count", []))
        finally:
            self.thread_excs = list(b.thread_excs)
            self.steps, self.switches, self.line_points = b.steps, b.switches, b.line_points
            self.decisions = b.decisions
            self.preempted = list(b.preempted)
            self.sync_hash = hashlib.sha1(repr(b.sync_trace).encode()).hexdigest()[:16]
            self.n_sync = len(b.sync_trace)
            b.shutdown()
            sm.undo()
        self.log.add("executed", [e[:5] for e in self.executed])
        self.log.add("leftovers", self.leftovers)
        self.log.add("outcome", self.outcome, self.final_q, self.final_counts, self.sync_hash)
        return self

    def _session(self, sch, si, sess, batch_id, best, rng, use_ctx, fault_at):
        self._batch_id, self._best = batch_id, best
        cm = sch.session() if use_ctx else contextlib.nullcontext()
        if not use_ctx:
            sch.start_session()
        try:
            with cm:
                for bi, losses in enumerate(sess):
                    first_ever = sch._best_loss is None  # noqa: SLF001
                    s = sch.get_next_sampler()
                    pos = next(i for i, x in enumerate(sch.samplers) if x is s)
                    if fault_at is not None and bi == fault_at:
                        # the batch fails after a sampler was designated and before update()
                        self.executed.append((si, self._batch_id, pos, type(s).__name__, not first_ever, self._best, None))
                        raise InjectedFault(f"session {si} batch {bi}")
                    new_losses = np.array(losses, dtype=float)
                    new_params = rng.random((len(new_losses), 2))
                    before = self._best
                    after = float(np.min(new_losses)) if before is None else min(before, float(np.min(new_losses)))
                    self.executed.append((si, self._batch_id, pos, type(s).__name__, not first_ever, before, after))
                    sch.update(self._batch_id, new_params, new_losses, None)
                    self._best = after
                    self._batch_id += 1
        finally:
            if not use_ctx and not sch._stopped:  # noqa: SLF001
                sch.end_session()


def reference_learns(executed):
    """RefRLProtocol + RefBandit: the (action, reward) sequence the agent must learn, in order."""
    out = []
    ref_best = None
    for (_si, _bid, pos, _cls, chosen, before, after) in executed:
        if after is None:       # failed batch: never executed
            continue
        if ref_best is None:
            ref_best = after     # bootstrap batch sets the reference
            if not chosen:
                continue
        if not chosen:
            continue
        if after < ref_best:
            r = (ref_best - after) / ref_best
            ref_best = after
        else:
            r = 0.0
        out.append((pos, r))
    return out
