"""Compare a junit xml of the repo's test-suite with the stable_pass list of /root/.vp/BASELINE.json."""
import json, sys
import xml.etree.ElementTree as ET
base = json.load(open("/root/.vp/BASELINE.json"))
want = set(base["stable_pass"])
root = ET.parse(sys.argv[1]).getroot()
passed = set()
for tc in root.iter("testcase"):
    ok = not any(ch.tag in ("failure", "error", "skipped") for ch in tc)
    name = f"{tc.get('classname')}::{tc.get('name')}"
    if ok:
        passed.add(name)
missing = sorted(want - passed)
print("stable_pass:", len(want), "passed now:", len(want & passed), "missing:", missing)
sys.exit(1 if missing else 0)
