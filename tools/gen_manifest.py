"""Regenerates MANIFEST.json from the table below (kept as code so that it cannot drift from the checks)."""
import json
from pathlib import Path

HOME = Path(__file__).resolve().parent.parent
BASE = json.loads(Path("/root/.vp/BASELINE.json").read_text()) if Path("/root/.vp/BASELINE.json").exists() else {}

CHECKS = {
    "C10": dict(engine="rlsim", category="exploration", design="4/C10",
                technique="deterministic simulation: baton-scheduled real threads, seeded schedule search with line-level pre-emption, protocol reference model",
                text="Seeded search over thread schedules of the real RLScheduler/env/agent exchange (two real threads, one baton; pre-emption at every queue/thread operation and every line of black_it/schedulers) for generated session/batch/loss scenarios; oracle = reference protocol + bandit model (exactly one learn per executed agent-chosen batch, right action, right reward, empty queues and no thread after each session, no deadlock within a step budget, outcome identical across schedules), for scenarios that include empty sessions, failing batches and zero losses. For 2% of the scenarios every schedule with at most two pre-emptions is enumerated. Otherwise sampling, not enumeration: a clean run is evidence, not proof.",
                note="Queue/Thread stand-ins assumed faithful to queue.Queue/threading.Thread for the operations used; pre-emption is at line granularity; the calibration loop is played by the harness."),
    "C01": dict(engine="calsim", category="exploration", design="4/C01",
                technique="deterministic simulation: twin executions of a real Calibrator under perturbed simulated environments (worker pool order/isolation, verbosity, folder, constructor seeds, ambient RNG, clock jumps, RL thread schedule), bitwise comparison",
                text="Each generated configuration is executed in a baseline and in 1-3 perturbed simulated environments (worker count with pickle isolation and seeded completion order, verbosity, folder, constructor seeds, ambient RNG, clock jumps, RL thread schedule, an unrelated calibration run first in the same process; thread-based pools are simulated as baton-scheduled threads sharing the interpreter, with a model that draws from numpy's global generator); histories, return values and the (theta, N, seed) sequence of model calls must be bit-identical, or both must raise the same exception type at the same point. 8% of the scenarios are also executed in a fresh interpreter under another PYTHONHASHSEED and about 1.5% on real joblib/loky worker processes. Seeded sampling over configurations and perturbations.",
                note="joblib.Parallel is modelled by SimParallel (lazy dispatch, pickle isolation, seeded completion order), real loky is not run; another PYTHONHASHSEED only through the runner's fresh-interpreter probe."),
    "C02": dict(engine="calsim", category="exploration", design="4/C02",
                technique="deterministic simulation: seam recordings (sampler returns, model dispatch/completion, loss evaluations) rebuilt into a reference history; append-only re-hash at every seam event",
                text="Whole real calibrations (all nine samplers, both schedulers, all losses, extreme model outputs, several calibrate() calls, simulated pool with reordering) with the five history arrays compared, after every call, against a reference history rebuilt from what crossed the seams, plus recomputation of every loss by a pristine copy and re-hashing of earlier rows at every seam event.",
                note="Oracle trusts the seam recorders (class-level wrappers) and the harness model's per-seed uniqueness; sampled configurations."),
    "C03": dict(engine="compsim+calsim", category="exploration", design="4/C03",
                technique="deterministic simulation: sampler op sequences (sample/append/pickle-restart/reseed) and whole calibrations with a grid-membership invariant at the sampler and model seams",
                text="Every batch returned by any of the nine built-in samplers, over generated awkward spaces and successive calls with restarts and reseeds on the same object, must have the declared shape and consist of exact grid elements; in whole calibrations the model must only ever see on-grid vectors.",
                note="The input quantifier (spaces, histories, options) is sampled; restart is the only fault dimension. Third-party numerical failures end a sequence and are counted."),
    "C12": dict(engine="compsim", category="exploration", design="4/C12",
                technique="deterministic simulation: scripted collision generator as peer, reference retry model (RefDedup) compared on request sizes and result multiset",
                text="BaseSampler.sample() driven by a scripted generator that injects collisions (repeats of history, in-batch repeats, repeats of earlier redraws) over histories with repeats, batch sizes 1-6, budgets 0-6, one to three calls on the same object (other history of the same length, grown, same) and pickle round trips between them; request sizes, shape and the returned multiset must equal the reference retry model written from the statement.",
                note="Which redraw replaces which repeated position is not prescribed, so results are compared as multisets; both copies of an in-batch repeat count as repeats (as the statement's request-size clause implies)."),
    "C13": dict(engine="compsim", category="exploration", design="4/C13",
                technique="deterministic simulation: batch/reseed/pickle-restart op sequences on one sampler with twin objects, every emitted pre-snap point compared with exact reference sequences",
                text="Halton and R-sequence samplers of 1-40 dims (unit cube and boxes with non-zero lower bounds) driven through op sequences; every emitted point must equal the exact radical inverse (independent sieve, rational arithmetic) resp. offset+k*phi-vector mod 1 (independent 50-digit phi), start index in range and seed-determined (construct vs construct, reseed vs reseed), batches must concatenate to the twin's single batch bitwise, also across restarts; the public halton() helper is probed at carry-biased start indices.",
                note="Pre-snap values observed at the module's digitize_data name; tolerances 1e-12 (Halton) and 1e-9 (R-sequence)."),
    "C16": dict(engine="compsim+calsim", category="exploration", design="4/C16",
                technique="deterministic simulation: read-only hash monitor at the sampler seam, scripted stub-surrogate peer, best-batch descent oracle on grid indices",
                text="(a) lent history arrays (those of the current call and every array lent at an earlier call; fresh arrays or views of one buffer) hashed before/after every sample() of all nine samplers with ties/inf/float32-overflowing/zero-variance losses, in op sequences and whole calibrations; (b) a stub surrogate with scripted fit/predict (ties, negative, huge, infinite) must be trained on exactly the history and return the snapped batch_size lowest-prediction candidates; (c) every best-batch proposal must descend from one of the batch_size lowest-loss points by 1..range-1 grid steps.",
                note="Ties at the selection threshold may be broken either way; clipping or snapping both count as 'confined to the space'."),
    "C09": dict(engine="calsim", category="exploration", design="4/C09",
                technique="deterministic simulation: op histories (calibrate / crash+restore / crash-inside-batch+restore) on a real Calibrator, sampler-seam record compared with reference round-robin and RL scheduling models",
                text="The sampler seam records which position of scheduler.samplers produced each batch over the calibration's whole life, across repeated calibrate() calls and restores from the simulated folder; round-robin must be position i mod n of the SUPPLIED line-up (also when it lists one object twice) with that sampler's batch size, also after sessions ended by the convergence stop and with diverging simulations; RL must bootstrap with Halton (added iff absent), use only the supplied set, and use positions that form an in-order subsequence of the agent's policy values (scripted or epsilon-greedy, seeded thread schedules); the four constructor argument combinations are probed.",
                note="Which pending action is dropped at a session end is deliberately left to C10."),
    "C11": dict(engine="calsim", category="fault_enumeration", design="4/C11",
                technique="deterministic simulation with fault injection: an exception injected at EVERY invocation index of the model, the loss and sample() of sampled configurations, compared against the fault-free twin",
                text="For each sampled configuration (<= 6 batches, round-robin and RL, with/without folder, n_jobs 1 and >1) every single fault position is enumerated; the injected exception must come out of calibrate(), the history must be aligned and bitwise equal to the fault-free run's prefix at a batch boundary, no simulated thread may be alive, no managed worker pool (joblib context-manager protocol, modelled by the simulated pool) may still be entered and no message queued, the folder (if any) must restore to a batch boundary, and the next calibrate(m) must work and extend the history consistently.",
                note="Configurations are sampled, fault positions within each are complete. Thread liveness is read from the baton scheduler's stand-ins, not from OS threads."),
    "C14": dict(engine="calsim", category="exploration", design="4/C14",
                technique="deterministic simulation: loss sequences scripted through the model seam, reference stop model, verbose twin, restore of the written checkpoint",
                text="Scripted loss sequences (distances, and signed ones through a user-defined loss) x precision (None, 0-12) x verbosity twin x folder x repeated calibrate() calls on a real Calibrator; batches run, rows and batch index per call must equal the reference stop model (first batch after which the running minimum rounds to zero), verbose and quiet twins must be bit-identical, and with a folder the restored checkpoint must equal the returned state including the stopping batch.",
                note="Scripted values avoid the half-unit rounding boundary; samplers are the history-free ones (losses are dictated, not computed)."),
    "C04": dict(engine="calsim", category="exploration", design="4/C04",
                technique="deterministic simulation: save/restore/new-run op histories on a simulated folder with stale-folder and extreme-value faults; deep bitwise comparator (RefCheckpoint) between live and restored object graphs; SQLite module API round trips",
                text="Every checkpoint a generated op history writes (after each calibrate() with a folder, and explicit create_checkpoint calls, including zero-row states and folders that already hold an earlier or a different run) is restored and compared field by field, bitwise, with the live calibrator: configuration, counters, five arrays, generator state, and a generic recursive walk of scheduler, samplers, agent and loss. The SQLite back-end is exercised with the same live states through its module API.",
                note="Threads/queues are transient by design; fitted third-party models are compared by type; NaN payload bits are not considered observable."),
    "C05": dict(engine="calsim", category="fault_enumeration", design="4/C05",
                technique="deterministic simulation with crash injection: every labelled cutting (plain second calibrate / crash+restore / crash inside the next batch+restore) of n batches enumerated for sampled configurations, bitwise comparison with the uninterrupted twin",
                text="For sampled configurations (round-robin over all nine samplers and all losses; RL with a greedy agent) all 4^(n-1) labelled cuttings of n <= 4 batches (5 in the thorough tier; 24 sampled cuttings for n up to 14) are executed with only the folder surviving a crash, plus cuttings whose continuation segments run in brand-new interpreters; the final history must be bit-identical to the uninterrupted run's.",
                note="Most restores are in-process (all references dropped, ambient state perturbed); RL takes part with eps=0 only, because with eps>0 every cut makes the agent draw one more random number and equality across cuts is not defined."),
    "C18": dict(engine="calsim", category="exploration", design="4/C18",
                technique="deterministic simulation: calibrate/set_samplers/set_scheduler/checkpoint/restore op histories with an id-table reference model; checkpoint read back by restore and by the plotting helper",
                text="The sampler seam records which class produced every row; after every op the live id table must extend the reference table without renumbering and map every stored label to the producing class; every checkpoint the calibrator writes is restored (restored table must still map all stored labels) and passed to plot_results._get_samplers_names (names must be right for all ids present).",
                note="set_scheduler is exercised with round-robin schedulers; nothing is drawn (Agg back-end)."),
    "C19": dict(engine="rlsim+compsim", category="exploration", design="4/C19",
                technique="deterministic simulation: real agent and environment inside the baton-scheduled exchange refined step by step against a reference bandit; agent op sequences with reseed/pickle-restart twins; non-monotone observation sequences on the environment",
                text="Every learn (only the rewarded arm moves, by step*(reward-estimate), step 1/count or the constant rate), every reward (relative improvement, reference moves only on improvement), every policy result (valid index; argmax set when eps=0) is compared with the reference model, in the simulated exchange on the agent's own thread and in direct op sequences with twins built from the same seed or reseeded identically after different constructor seeds.",
                note="Relative tolerance 1e-12 on estimates; loss sequences keep the reference best away from zero."),
    "C06": dict(engine="diskcrash", category="fault_enumeration", design="4/C06",
                technique="deterministic fault injection: recorded write trace of a real save materialised at every operation prefix and byte step on top of the previous folder, each state given to the real restore; SQLite: exception before / process death after every call and inside every array adapter",
                text="For sampled scenarios (previous folder: empty / earlier checkpoint of the same run / checkpoint of a different run) the next real save is recorded (order of file opens, final contents, every offset/bytes/truncate the HDF5 library issues) and EVERY crash point is materialised: after each operation and every 7th byte (thorough: every byte) inside each write; restore must fail or return exactly the previous or exactly the new checkpoint (deep bitwise comparison). An OSError is also raised from every fault point of a live save (each open/write/close, each HDF5 call) and the folder classified the same way; once the fault is over the next save may refuse loudly but, if it reports success, must restore exactly. SQLite: an exception before each call and in each array adapter must leave the previous checkpoint loadable; process death after each call must leave old or new; one scenario in eight uses a row larger than the page cache. One scenario per run is confirmed against real SIGKILLs (strace).",
                note="Crash = process death (prefix of the operation sequence), not power loss; disk model validated on every run by replaying the trace and comparing all five files byte for byte; HDF5 and SQLite internals below their write calls are trusted."),
}

NOT_APPLICABLE = {
    "C07": "pure function of two arrays and constructor options: no schedule, clock, fault, crash or history for a simulator to vary (needs differential testing against a reference evaluator, a different technique)",
    "C08": "metamorphic laws of a pure function; only its purity clause has a history dimension and that clause is monitored inside C02's oracle, which does not decide C08",
    "C15": "input validation and np.arange discretisation: pure function of its arguments, nothing to schedule or inject",
    "C17": "pure array function (nearest grid element): nothing to schedule or inject",
    "C20": "pure numerical identities of the time-series filters: nothing to schedule or inject",
}
PENDING = {}


def main():
    props = [json.loads(l)["id"] for l in (HOME / "properties.jsonl").read_text().splitlines() if l.strip()]
    checks = []
    for pid in props:
        if pid not in CHECKS:
            continue
        c = CHECKS[pid]
        checks.append({
            "property_id": pid,
            "quick_cmd": f"bin/check {pid} --tier quick",
            "thorough_cmd": f"bin/check {pid} --tier thorough",
            "evidence_file": f"evidence/{pid}.json",
            "replay_cmd_template": f"bin/check {pid} --replay {{path}}",
            "engine": c["engine"],
            "level_claimed": {"category": c["category"], "text": c["text"], "design_ref": c["design"]},
            "level_note": c["note"],
            "technique": c["technique"],
        })
    na = []
    for pid in props:
        if pid in CHECKS:
            continue
        reason = NOT_APPLICABLE.get(pid) or PENDING.get(pid) or "check not built yet in this round (planned: see DESIGN.md section 4); not claimed until it exists"
        na.append({"property_id": pid, "reason": reason})
    hooks_commits = []
    m = {
        "version": 1,
        "setup_cmd": "bin/setup",
        "hooks": {
            "guard": "BLACK_IT_VERIF",
            "enable": "none needed: every seam is installed from the harness by replacing names in black-it's module namespaces at run time (threading, Queue, joblib.Parallel, time, h5py, sqlite3, class-level wrappers); /repo carries no hook code",
            "baseline_off_cmd": (BASE.get("cmd") or "cd /repo && /venv/bin/python -m pytest -ra -q -p no:cacheprovider --timeout=900 --continue-on-collection-errors").replace(" --junitxml=<file>", ""),
            "source_commits": hooks_commits,
            "add_only": True,
        },
        "engines": [
            {"name": "rlsim", "path": "sim/rlsim.py", "serves_properties": ["C10", "C19"], "kind_free_text": "two real threads under a seeded baton scheduler (sim/threads.py); harness plays the calibration loop"},
            {"name": "calsim", "path": "sim/calsim.py", "serves_properties": ["C01", "C02", "C03", "C04", "C05", "C09", "C11", "C14", "C16", "C18"], "kind_free_text": "whole real Calibrator with simulated worker pool, threads, clock, ambient state, folder; seam recorders and fault injection"},
            {"name": "compsim", "path": "sim/compsim.py", "serves_properties": ["C03", "C12", "C13", "C16"], "kind_free_text": "one sampler object through sample/append/restart/reseed op sequences with scripted peers"},
            {"name": "diskcrash", "path": "sim/diskcrash.py", "serves_properties": ["C06", "C04"], "kind_free_text": "recorded write trace of a real save materialised at every crash prefix/byte; SQLite statement-level faults"},
        ],
        "checks": checks,
        "not_applicable": na,
        "notes": "Checks import black_it from /repo's working tree (VERIF_REPO overrides); python has nothing to rebuild. Exit 0/1/2 = held / violation / harness error. VERIF_SEED selects the exploration; replays/ holds minimised replay files.",
    }
    (HOME / "MANIFEST.json").write_text(json.dumps(m, indent=1) + "\n")


if __name__ == "__main__":
    main()
