"""Generates /verif/mutants/*.patch from the table below (one small, compiling, test-passing-looking slip per
mutation class named in the properties' why_tests_cant).  Patches are produced against /repo HEAD in a scratch
worktree, which is removed afterwards.  `tools/sweep` runs each against its owning checks."""
import json
import subprocess
import sys
import tempfile
from pathlib import Path

HOME = Path(__file__).resolve().parent.parent
# Dropped after the first sweep because they turned out to be equivalent to the original under every property's fault
# model: "pending action kept in start_session" (it is always None there), "digest check skips the series file" (the CSV
# is always rewritten before the series file is touched, so its digest already rejects those states), "end_session
# returns early when no action is pending" (never the case inside a session).
M = [
 ("repeat-to-tile", ["C02"], "black_it/calibrator.py", "rep_params = np.repeat(params, self.ensemble_size, axis=0)", "rep_params = np.tile(params, (self.ensemble_size, 1))"),
 ("seed-drawn-in-worker", ["C01"], "black_it/calibrator.py", "delayed(self.model)(param, self.N, self._get_random_seed())", "delayed(lambda p: self.model(p, self.N, self._get_random_seed()))(param)"),
 ("batch-label-off-by-one", ["C02"], "black_it/calibrator.py", "[self.current_batch_index] * method.batch_size,", "[self.current_batch_index + 1] * method.batch_size,"),
 ("reseed-on-every-calibrate", ["C05"], "black_it/calibrator.py", "        if self.current_batch_index == 0:\n            # we only set the samplers' random state at the start of a calibration\n            self._set_samplers_seeds()", "        self._set_samplers_seeds()"),
 ("return-unsorted", ["C02"], "black_it/calibrator.py", "idx = np.argsort(self.losses_samp)", "idx = np.arange(len(self.losses_samp))"),
 ("losses-on-mean-series", ["C02"], "black_it/calibrator.py", "                        sim_data_ensemble,\n                        self.real_data,", "                        sim_data_ensemble.mean(axis=0, keepdims=True),\n                        self.real_data,"),
 ("halton-cursor-not-advanced", ["C13"], "black_it/samplers/halton.py", "        self._sequence_index += nb_samples\n", "        self._sequence_index += 0\n"),
 ("halton-cursor-not-reset-on-reseed", ["C13", "C01"], "black_it/samplers/halton.py", "        super()._set_random_state(random_state)\n        self._reset_sequence_index()", "        super()._set_random_state(random_state)\n        if not hasattr(self, \"_sequence_index\"):\n            self._reset_sequence_index()"),
 ("rseq-offset-redrawn-per-batch", ["C13"], "black_it/samplers/r_sequence.py", "        phi = self.compute_phi(dims)\n", "        phi = self.compute_phi(dims)\n        self._sequence_start = self.random_generator.random()\n"),
 ("round-robin-position-reset-per-session", ["C09"], "black_it/schedulers/round_robin.py", "    def get_next_sampler(self) -> BaseSampler:", "    def start_session(self) -> None:\n        \"\"\"Set up the scheduler for a new session.\"\"\"\n        self._batch_id = 0\n\n    def get_next_sampler(self) -> BaseSampler:"),
 ("dedup-history-only", ["C12"], "black_it/samplers/base.py", "        all_points = np.concatenate((existing_points, new_points))\n        unq, count = np.unique(all_points, axis=0, return_counts=True)\n        repeated_groups = unq[count > 1]", "        unq = np.unique(existing_points, axis=0) if len(existing_points) else existing_points\n        repeated_groups = unq"),
 ("dedup-pass-budget-off-by-one", ["C12"], "black_it/samplers/base.py", "for n in range(self.max_deduplication_passes):", "for n in range(max(self.max_deduplication_passes - 1, 0)):"),
 ("best-batch-parents-from-worst", ["C16"], "black_it/samplers/best_batch.py", "            np.argsort(existing_losses)\n        ][:batch_size, :]", "            np.argsort(existing_losses)[::-1]\n        ][:batch_size, :]"),
 ("surrogate-highest-predictions", ["C16"], "black_it/samplers/surrogate.py", "sorting_indices: NDArray[np.int64] = np.argsort(predictions)", "sorting_indices: NDArray[np.int64] = np.argsort(predictions)[::-1]"),
 ("surrogate-selects-before-snapping-wrong-grid", ["C03"], "black_it/samplers/surrogate.py", "        return digitize_data(sampled_points, search_space.param_grid)", "        return digitize_data(sampled_points, search_space.param_grid[::-1])"),
 ("pso-velocities-not-pickled", ["C05", "C04"], "black_it/samplers/particle_swarm.py", "    @property\n    def is_set_up(self) -> bool:", "    def __getstate__(self) -> dict:\n        \"\"\"Get the state to pickle.\"\"\"\n        state = self.__dict__.copy()\n        if state.get(\"_curr_particle_velocities\") is not None:\n            state[\"_curr_particle_velocities\"] = np.zeros_like(state[\"_curr_particle_velocities\"])\n        return state\n\n    @property\n    def is_set_up(self) -> bool:"),
 ("agent-step-one-over-count-plus-one", ["C19"], "black_it/schedulers/rl/agents/epsilon_greedy.py", "return 1 / self.actions_count[action] if self.alpha == -1 else self.alpha", "return 1 / (self.actions_count[action] + 1) if self.alpha == -1 else self.alpha"),
 ("reward-relative-to-new-best", ["C19"], "black_it/schedulers/rl/envs/mab.py", "reward = (self._curr_best_loss - best_loss) / self._curr_best_loss", "reward = (self._curr_best_loss - best_loss) / best_loss"),
 ("rl-agent-learns-from-end-marker", ["C10"], "black_it/schedulers/rl/rl_scheduler.py", "            if truncated:\n                # the session ended: the pending action was never executed, there is nothing to learn\n                break\n", "            if truncated:\n                self._agent.learn(state, action, reward, next_state)\n                break\n"),
 ("json-params-also-written-first", ["C06"], "black_it/utils/json_pandas_checkpointing.py", "    # save instantiated scheduler and loss functions\n", "    with (checkpoint_path / \"calibration_params.json\").open(\"w\") as f:\n        json.dump(calibration_params, f, cls=NumpyArrayEncoder)\n    # save instantiated scheduler and loss functions\n"),
 ("sqlite-commit-before-insert", ["C06"], "black_it/utils/sqlite3_checkpointing.py", "        cursor.execute(SQL_DELETE)\n", "        cursor.execute(SQL_DELETE)\n        connection.commit()\n"),
 ("generator-state-saved-stale", ["C04", "C05"], "black_it/calibrator.py", "            self.random_generator.bit_generator.state,\n            model_name,", "            getattr(self, \"_state0\", None) or self.__dict__.setdefault(\"_state0\", self.random_generator.bit_generator.state),\n            model_name,"),
 ("id-table-renumbered-on-update", ["C18"], "black_it/calibrator.py", "        sampler_id = max(self.samplers_id_table.values()) + 1\n\n        for sampler in samplers:", "        self.samplers_id_table = self._construct_samplers_id_table(list(samplers)) | {\n            k: v for k, v in self.samplers_id_table.items() if k not in {type(s).__name__ for s in samplers}\n        }\n        sampler_id = max(self.samplers_id_table.values()) + 1\n\n        for sampler in samplers:"),
 ("convergence-strictly-less-than", ["C14"], "black_it/calibrator.py", "np.round(np.min(losses_samp[:n_sampled_params]), convergence_precision) == 0", "np.min(losses_samp[:n_sampled_params]) < 10.0 ** (-convergence_precision)"),
]


def main():
    wt = tempfile.mkdtemp(prefix="verif-mutgen-")
    subprocess.run(["git", "-C", "/repo", "worktree", "add", "-q", "--detach", wt, "HEAD"], check=True)
    index = []
    try:
        for name, owners, file, old, new in M:
            p = Path(wt, file)
            s = p.read_text()
            if s.count(old) != 1:
                print(f"SKIP {name}: anchor found {s.count(old)} times", file=sys.stderr)
                continue
            p.write_text(s.replace(old, new, 1))
            r = subprocess.run([sys.executable, "-c", f"import ast,sys; ast.parse(open({str(p)!r}).read())"], capture_output=True)
            diff = subprocess.run(["git", "-C", wt, "diff"], capture_output=True, text=True).stdout
            subprocess.run(["git", "-C", wt, "checkout", "--", "."], check=True)
            if r.returncode != 0:
                print(f"SKIP {name}: does not parse", file=sys.stderr)
                continue
            (HOME / "mutants" / f"{name}.patch").write_text(diff)
            index.append({"name": name, "owners": owners, "file": file})
    finally:
        subprocess.run(["git", "-C", "/repo", "worktree", "remove", "--force", wt])
    (HOME / "mutants" / "INDEX.json").write_text(json.dumps(index, indent=1) + "\n")
    print(f"{len(index)} mutants written")


if __name__ == "__main__":
    main()
