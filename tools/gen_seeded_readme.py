"""Writes seeded/README.md: one row per independently written breaking change, with what the owning check reports."""
import csv
import json
from pathlib import Path

HOME = Path(__file__).resolve().parent.parent
rows = {}
mt = HOME / "seeded" / "MATRIX.tsv"
if mt.exists():
    for m, pid, ex, nv, sig in csv.reader(mt.open(), delimiter="\t"):
        rows.setdefault(m, {})[pid] = (ex, nv, sig)
out = ["# Seeded changes (written by independent sub-agents that saw only the property text and a scratch worktree)",
       "",
       "Each directory holds `patch.diff` (applies to /repo HEAD), `demo.py` (exits 0 on the clean tree, non-zero with the patch) and",
       "`meta.json` (what it breaks, what it needs to manifest, and the confirmation record written by `tools/confirm_mut`: demo",
       "before/after, all 84 baseline tests still passing with the patch). `MATRIX.tsv` is written by `tools/matrix`",
       "(mutant, check, exit code, number of violation signatures, first signature).",
       "",
       "| change | what (site) | needs to manifest | owning check: exit / first signature | also caught by |",
       "|---|---|---|---|---|"]
for d in sorted((HOME / "seeded").glob("C*-[A-Z]")):
    m = json.loads((d / "meta.json").read_text())
    own = d.name.split("-")[0]
    r = rows.get(d.name, {})
    o = r.get(own)
    others = ", ".join(sorted(p for p, v in r.items() if p != own and v[0] == "1"))
    title = str(m.get("title", "")).replace("|", "/")[:150]
    needs = str(m.get("needs_to_manifest", "")).replace("|", "/").replace("\n", " ")[:220]
    files = ", ".join(Path(f).name for f in m.get("files_touched", [])[:2])
    out.append(f"| {d.name} | {title} ({files}) | {needs} | {o[0] + ' / `' + o[2] + '`' if o else 'n/a'} | {others} |")
out += ["", "`MATRIX_OWN.tsv` (written by `tools/matrix_own`, last full pass on the final check code): every one of the 180 changes against the",
        "check of the property it was written for. 178 are detected there; the two that are not, C02-F and C02-I, break C04/C18 rather than C02",
        "(an `allclose` in the HDF5 append test; the restored id table) and are detected by those checks. Two rows (C05-D, C18-F) were",
        "re-measured after the pass, when the pass had shown that the detection rested on incidentally generated scenarios: C05 now uses",
        "constructor defaults for more Gaussian-process options, C18 has an explicit failing-batch op."]
(HOME / "seeded" / "README.md").write_text("\n".join(out) + "\n")
print(len(out) - 9, "rows")
