"""CLI of the checks.  Run as a script (never with -m, which would import modules twice).

  bin/check <ID> [--tier quick|thorough] [--replay FILE] [--json]
Exit 0: property held on everything explored (KNOWN-FINDING lines for listed findings).
Exit 1: 'VIOLATION property=<id> replay=<path>' for a violation known_findings.json does not list.
Exit 2: harness error (nondeterminism, unreplayable failure, too many discards).
"""
import argparse
import importlib
import os
import sys
from pathlib import Path

HOME = Path(__file__).resolve().parent
os.environ.setdefault("VERIF_HOME", str(HOME))
REPO = os.environ.get("VERIF_REPO", "/repo")
# black_it is imported from the working tree, whatever is installed in the venv
sys.path.insert(0, str(HOME))
sys.path.insert(0, REPO)
# processes started by the code under test (real joblib/loky workers of the C01 confirmation sample, subprocess
# probes) must resolve black_it and the harness peers the same way
os.environ["PYTHONPATH"] = os.pathsep.join([REPO, str(HOME)] + [p for p in os.environ.get("PYTHONPATH", "").split(os.pathsep) if p])


def main() -> int:
    ap = argparse.ArgumentParser()
    ap.add_argument("pid")
    ap.add_argument("--tier", default=os.environ.get("VERIF_TIER", "quick"), choices=["quick", "thorough"])
    ap.add_argument("--replay")
    ap.add_argument("--json", action="store_true")
    a = ap.parse_args()
    import black_it  # noqa: PLC0415
    got = str(Path(black_it.__file__).resolve().parent.parent)
    if got != str(Path(REPO).resolve()):
        print(f"HARNESS-ERROR: black_it imported from {got}, expected {REPO}", file=sys.stderr)
        return 2
    from sim import core  # noqa: PLC0415
    if a.pid == "selftest":
        from sim import selftest  # noqa: PLC0415
        return selftest.main(a.tier)
    mod = importlib.import_module(f"sim.props.{a.pid.lower()}")
    check = mod.CHECK
    seed = int(os.environ.get("VERIF_SEED", "0"))
    return core.main_check(check, a.tier, seed, a.replay, a.json)


if __name__ == "__main__":
    sys.exit(main())
